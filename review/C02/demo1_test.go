package shutterservice

import (
	"math/big"
	"testing"

	"github.com/ethereum/go-ethereum/common"
	"github.com/ethereum/go-ethereum/core/types"
)

// C02: an event-triggered identity may only be released after a MATCHING log was included.
//
// TriggerProcessor.FetchEvents turns every log for which EventTriggerDefinition.Match returns
// true into a fired trigger (InsertFiredTrigger), and prepareEventBasedTriggers then requests
// decryption for it. So Match returning true for a log that does not carry the referenced value
// at all releases the key without the release condition.
//
// The repo's own test "topic reference that doesn't exist in log" pins the intended semantics:
// a predicate on a topic the log does not have must NOT match (even when compared with an
// all-zero word). The Uint* operators do not agree with that sibling path: LogValueRef.GetValue
// returns nil for "value absent", and ValuePredicate.Match turns nil into the number 0.

// roundTrip makes sure the definition is one the keyper accepts from the registry contract
// (EventTriggerRegisteredEventProcessor.ProcessEvents / TriggerProcessor.FetchEvents both go
// through UnmarshalBytes, which validates).
func roundTrip(t *testing.T, def EventTriggerDefinition) EventTriggerDefinition {
	t.Helper()
	var decoded EventTriggerDefinition
	if err := decoded.UnmarshalBytes(def.MarshalBytes()); err != nil {
		t.Fatalf("definition is not accepted by the keyper: %v", err)
	}
	return decoded
}

func TestDemo1MissingTopicMatchesUintPredicate(t *testing.T) {
	contract := common.HexToAddress("0x1234567890123456789012345678901234567890")

	// "release when the indexed uint argument (topic 2) is below 100"
	def := roundTrip(t, EventTriggerDefinition{
		Contract: contract,
		LogPredicates: []LogPredicate{{
			LogValueRef: LogValueRef{Offset: 2},
			ValuePredicate: ValuePredicate{
				Op:       UintLt,
				IntArgs:  []*big.Int{big.NewInt(100)},
				ByteArgs: [][]byte{},
			},
		}},
	})

	// Exactly the log of the existing test "topic reference that doesn't exist in log":
	// only topic 0 is present, there is no topic 2 whose value could be below 100.
	lg := &types.Log{
		Address: contract,
		Topics: []common.Hash{
			common.HexToHash("0x1111111111111111111111111111111111111111111111111111111111111111"),
		},
		Data: make([]byte, 64),
	}

	// control: the sibling BytesEq path treats the absent topic as "no match", even against zero
	zeroDef := roundTrip(t, EventTriggerDefinition{
		Contract: contract,
		LogPredicates: []LogPredicate{{
			LogValueRef: LogValueRef{Offset: 2},
			ValuePredicate: ValuePredicate{
				Op:       BytesEq,
				IntArgs:  []*big.Int{},
				ByteArgs: [][]byte{make([]byte, 32)},
			},
		}},
	})
	ctrl, err := zeroDef.Match(lg)
	if err != nil || ctrl {
		t.Fatalf("control: BytesEq(0x00..00) on absent topic: match=%v err=%v, expected no match", ctrl, err)
	}

	for _, tc := range []struct {
		name string
		op   Op
		arg  int64
	}{
		{"UintLt 100", UintLt, 100},
		{"UintLte 100", UintLte, 100},
		{"UintEq 0", UintEq, 0},
		{"UintGte 0", UintGte, 0},
	} {
		d := roundTrip(t, EventTriggerDefinition{
			Contract: contract,
			LogPredicates: []LogPredicate{{
				LogValueRef: LogValueRef{Offset: 2},
				ValuePredicate: ValuePredicate{
					Op:       tc.op,
					IntArgs:  []*big.Int{big.NewInt(tc.arg)},
					ByteArgs: [][]byte{},
				},
			}},
		})
		match, err := d.Match(lg)
		if err != nil {
			t.Fatalf("%s: unexpected error: %v", tc.name, err)
		}
		if match {
			t.Errorf("C02 violated: predicate %q on topic 2 matched a log that has no topic 2; "+
				"FetchEvents would record a fired trigger and the key would be released "+
				"without a matching log", tc.name)
		}
	}
	_ = def
}

func TestDemo1MalformedDynamicValueMatchesUintPredicate(t *testing.T) {
	contract := common.HexToAddress("0x1234567890123456789012345678901234567890")

	// "release when the dynamic (bytes) argument at data word 0, read as a number, is below 100"
	def := roundTrip(t, EventTriggerDefinition{
		Contract: contract,
		LogPredicates: []LogPredicate{{
			LogValueRef: LogValueRef{Dynamic: true, Offset: 4},
			ValuePredicate: ValuePredicate{
				Op:       UintLt,
				IntArgs:  []*big.Int{big.NewInt(100)},
				ByteArgs: [][]byte{},
			},
		}},
	})

	// The head word points far outside the log data: per getOffsetDataValue's own doc comment
	// "the log is not a valid ABI encoding and nil is returned" - there is no value at all.
	data := make([]byte, 32)
	for i := range data {
		data[i] = 0xff
	}
	lg := &types.Log{Address: contract, Data: data}

	ref := LogValueRef{Dynamic: true, Offset: 4}
	if v := ref.GetValue(lg); v != nil {
		t.Fatalf("precondition: expected GetValue to report an absent value (nil), got %x", v)
	}

	match, err := def.Match(lg)
	if err != nil {
		t.Fatalf("unexpected error: %v", err)
	}
	if match {
		t.Errorf("C02 violated: UintLt 100 on a dynamic value matched a log whose data is not a " +
			"valid ABI encoding (GetValue returned nil = no value); the trigger would fire " +
			"without a matching log")
	}
}
