package app

// Demo for C12 (boundary-domain finding): DiffPowermaps/ValidatorUpdates emit the REMOVAL of a
// validator that is not present in Tendermint's validator set when the old power map carries an
// entry with power 0. Tendermint treats "power 0" as "not a validator", so the removal is
// rejected by ValidatorSet.UpdateWithChangeSet ("failed to find validator ... to remove"), which
// in a running node makes ApplyBlock fail.
//
// Drop into rolling-shutter/app and run:
//   go test ./app -run 'TestDemo1' -count=1

import (
	"fmt"
	"testing"

	"github.com/ethereum/go-ethereum/common"
	"github.com/ethereum/go-ethereum/crypto"
	"github.com/tendermint/go-amino"
	abcitypes "github.com/tendermint/tendermint/abci/types"
	tmcrypto "github.com/tendermint/tendermint/proto/tendermint/crypto"
	tmtypes "github.com/tendermint/tendermint/types"

	"github.com/shutter-network/rolling-shutter/rolling-shutter/shmsg"
)

func demo1Key(i int) ValidatorPubkey {
	k, err := NewValidatorPubkey([]byte(fmt.Sprintf("demo1-validator-key-%012d", i)))
	if err != nil {
		panic(err)
	}
	return k
}

// demo1TMSet builds the validator set Tendermint holds for a power map: exactly the entries with
// positive power (Tendermint has no notion of a validator with power 0).
func demo1TMSet(t *testing.T, pm Powermap) *tmtypes.ValidatorSet {
	t.Helper()
	positive := make(Powermap)
	for k, p := range pm {
		if p > 0 {
			positive[k] = p
		}
	}
	vals, err := tmtypes.PB2TM.ValidatorUpdates(positive.ValidatorUpdates())
	if err != nil {
		t.Fatalf("cannot convert: %v", err)
	}
	return tmtypes.NewValidatorSet(vals)
}

func demo1SetAsMap(vs *tmtypes.ValidatorSet) map[string]int64 {
	res := map[string]int64{}
	for _, v := range vs.Validators {
		res[string(v.PubKey.Bytes())] = v.VotingPower
	}
	return res
}

// TestDemo1DiffAllSmallPowermaps enumerates all pairs of power maps over three keys with powers
// in {absent, 0, 10, 20} (non-empty validator sets only) and applies the diff the way Tendermint
// does. Property: no removal of an absent validator, and the result is exactly the new set.
func TestDemo1DiffAllSmallPowermaps(t *testing.T) {
	powers := []int64{-1, 0, 10, 20} // -1 == key absent from the map
	const nkeys = 3
	var maps []Powermap
	for code := 0; code < 4*4*4; code++ {
		pm := make(Powermap)
		c := code
		for i := 0; i < nkeys; i++ {
			p := powers[c%4]
			c /= 4
			if p >= 0 {
				pm[demo1Key(i)] = p
			}
		}
		maps = append(maps, pm)
	}
	hasPositive := func(pm Powermap) bool {
		for _, p := range pm {
			if p > 0 {
				return true
			}
		}
		return false
	}

	failures := 0
	for _, oldpm := range maps {
		if !hasPositive(oldpm) {
			continue
		}
		for _, newpm := range maps {
			if !hasPositive(newpm) {
				continue
			}
			tmOld := demo1TMSet(t, oldpm)
			present := demo1SetAsMap(tmOld)
			updates := DiffPowermaps(oldpm, newpm).ValidatorUpdates()

			for _, u := range updates {
				_, ok := present[string(u.PubKey.GetEd25519())]
				if u.Power == 0 && !ok {
					failures++
					if failures <= 3 {
						t.Errorf("old=%v new=%v: update removes validator %x which is not in the validator set",
							oldpm, newpm, u.PubKey.GetEd25519())
					}
				}
			}

			changes, err := tmtypes.PB2TM.ValidatorUpdates(updates)
			if err != nil {
				t.Fatalf("cannot convert updates: %v", err)
			}
			result := tmOld.Copy()
			if len(changes) > 0 {
				if err := result.UpdateWithChangeSet(changes); err != nil {
					failures++
					if failures <= 6 {
						t.Errorf("old=%v new=%v: tendermint rejects the updates: %v", oldpm, newpm, err)
					}
					continue
				}
			}
			want := demo1SetAsMap(demo1TMSet(t, newpm))
			got := demo1SetAsMap(result)
			if fmt.Sprint(want) != fmt.Sprint(got) {
				t.Errorf("old=%v new=%v: resulting set %x, want %x", oldpm, newpm, got, want)
			}
		}
	}
	if failures > 0 {
		t.Errorf("%d pairs of small power maps violate the property", failures)
	}
}

// TestDemo1EndBlockRemovesAbsentValidator shows the same thing through the application:
// InitChain/MakePowermap accept an initial validator with power 0 without complaint, it is
// remembered in app.Validators, and the first validator-set transition then returns an update
// that removes it although Tendermint never had it.
func TestDemo1EndBlockRemovesAbsentValidator(t *testing.T) {
	keypers := []common.Address{
		common.HexToAddress("0x1000000000000000000000000000000000000001"),
		common.HexToAddress("0x1000000000000000000000000000000000000002"),
		common.HexToAddress("0x1000000000000000000000000000000000000003"),
	}
	gs := NewGenesisAppState(keypers, 2, 0, NewForkHeightsAllDisabled())
	appState, err := amino.NewCodec().MarshalJSON(gs)
	if err != nil {
		t.Fatal(err)
	}
	genesisValidators := []abcitypes.ValidatorUpdate{
		{Power: 10, PubKey: tmcrypto.PublicKey{Sum: &tmcrypto.PublicKey_Ed25519{Ed25519: []byte(demo1Key(100).Ed25519pubkey)}}},
		{Power: 0, PubKey: tmcrypto.PublicKey{Sum: &tmcrypto.PublicKey_Ed25519{Ed25519: []byte(demo1Key(101).Ed25519pubkey)}}},
	}

	app := NewShutterApp()
	app.InitChain(abcitypes.RequestInitChain{ChainId: "demo1", AppStateBytes: appState, Validators: genesisValidators})

	// Tendermint's view: only validators with positive power exist.
	tmSet := demo1TMSet(t, Powermap{demo1Key(100): 10})

	encKey, err := crypto.GenerateKey()
	if err != nil {
		t.Fatal(err)
	}
	encPub := crypto.CompressPubkey(&encKey.PublicKey)
	for i, k := range keypers {
		res := app.deliverCheckIn(&shmsg.CheckIn{
			ValidatorPublicKey:  []byte(demo1Key(i).Ed25519pubkey),
			EncryptionPublicKey: encPub,
		}, k)
		if res.Code != 0 {
			t.Fatalf("check-in failed: %s", res.Log)
		}
		app.deliverBlockSeen(&shmsg.BlockSeen{BlockNumber: 1}, k)
	}

	res := app.EndBlock(abcitypes.RequestEndBlock{Height: 1})
	present := demo1SetAsMap(tmSet)
	for _, u := range res.ValidatorUpdates {
		if _, ok := present[string(u.PubKey.GetEd25519())]; u.Power == 0 && !ok {
			t.Errorf("EndBlock removes validator %x which is not in the validator set", u.PubKey.GetEd25519())
		}
	}
	changes, err := tmtypes.PB2TM.ValidatorUpdates(res.ValidatorUpdates)
	if err != nil {
		t.Fatal(err)
	}
	if err := tmSet.UpdateWithChangeSet(changes); err != nil {
		t.Errorf("tendermint rejects the validator updates returned by EndBlock: %v", err)
	}
}
