package app

// C09 demo 1: two shuttermint replicas that are given the same genesis and the same sequence
// of blocks return different EndBlock results (validator updates) when their node-local
// shutter.gob was created with a different `--dev` flag. ShutterApp.DevMode is neither part of
// the genesis nor of the block sequence, yet ShutterApp.EndBlock consults it to decide whether
// validator updates are returned to tendermint.

import (
	"crypto/ecdsa"
	"encoding/base64"
	"math/big"
	"path/filepath"
	"reflect"
	"testing"

	"github.com/ethereum/go-ethereum/common"
	ethcrypto "github.com/ethereum/go-ethereum/crypto"
	"github.com/tendermint/go-amino"
	abcitypes "github.com/tendermint/tendermint/abci/types"
	tmcrypto "github.com/tendermint/tendermint/proto/tendermint/crypto"
	tmproto "github.com/tendermint/tendermint/proto/tendermint/types"

	"github.com/shutter-network/rolling-shutter/rolling-shutter/shmsg"
)

const demo1ChainID = "demo-chain"

// demo1InitNode mimics what `rolling-shutter chain init [--dev]` followed by `rolling-shutter
// chain` does with the application state: a fresh app is persisted with the node-local dev flag
// (cmd/chain/init.go initFiles) and loaded again on start (cmd/chain/chain.go appService.Start).
func demo1InitNode(t *testing.T, dir string, dev bool) *ShutterApp {
	t.Helper()
	gobpath := filepath.Join(dir, "shutter.gob")
	a := NewShutterApp()
	a.Gobpath = gobpath
	a.DevMode = dev
	if err := a.PersistToDisk(); err != nil {
		t.Fatal(err)
	}
	loaded, err := LoadShutterAppFromFile(gobpath)
	if err != nil {
		t.Fatal(err)
	}
	return &loaded
}

func demo1SignedTx(t *testing.T, key *ecdsa.PrivateKey, nonce uint64, m *shmsg.Message) []byte {
	t.Helper()
	signed, err := shmsg.SignMessage(&shmsg.MessageWithNonce{
		ChainId:     []byte(demo1ChainID),
		RandomNonce: nonce,
		Msg:         m,
	}, key)
	if err != nil {
		t.Fatal(err)
	}
	return []byte(base64.RawURLEncoding.EncodeToString(signed))
}

func TestDemo1ReplicasWithSameGenesisAndBlocksAgree(t *testing.T) {
	// three genesis keypers, threshold 2
	var keys []*ecdsa.PrivateKey
	var keypers []common.Address
	for i := 0; i < 3; i++ {
		k, err := ethcrypto.ToECDSA(common.BigToHash(big.NewInt(int64(4711 + i))).Bytes())
		if err != nil {
			t.Fatal(err)
		}
		keys = append(keys, k)
		keypers = append(keypers, ethcrypto.PubkeyToAddress(k.PublicKey))
	}

	// one and the same genesis for both replicas
	appState, err := amino.NewCodec().MarshalJSON(
		NewGenesisAppState(keypers, 2, 0, NewForkHeightsAllEnabled()),
	)
	if err != nil {
		t.Fatal(err)
	}
	genesisValidator := make([]byte, 32)
	genesisValidator[0] = 0xaa
	initChain := abcitypes.RequestInitChain{
		ChainId:       demo1ChainID,
		AppStateBytes: appState,
		Validators: []abcitypes.ValidatorUpdate{{
			Power:  10,
			PubKey: tmcrypto.PublicKey{Sum: &tmcrypto.PublicKey_Ed25519{Ed25519: genesisValidator}},
		}},
	}

	// one and the same block sequence for both replicas: in block 1 every keyper checks in with
	// its validator key and reports main chain block 1 as seen.
	var block1 [][]byte
	nonce := uint64(0)
	for i, k := range keys {
		validatorKey := make([]byte, 32)
		validatorKey[0] = byte(i + 1)
		nonce++
		block1 = append(block1, demo1SignedTx(t, k, nonce, &shmsg.Message{
			Payload: &shmsg.Message_CheckIn{CheckIn: &shmsg.CheckIn{
				ValidatorPublicKey:  validatorKey,
				EncryptionPublicKey: ethcrypto.CompressPubkey(&k.PublicKey),
			}},
		}))
		nonce++
		block1 = append(block1, demo1SignedTx(t, k, nonce, &shmsg.Message{
			Payload: &shmsg.Message_BlockSeen{BlockSeen: &shmsg.BlockSeen{BlockNumber: 1}},
		}))
	}
	blocks := [][][]byte{block1, nil}

	// the only difference between the replicas is node-local and outside of genesis and blocks
	replicaA := demo1InitNode(t, t.TempDir(), false)
	replicaB := demo1InitNode(t, t.TempDir(), true)

	replicaA.InitChain(initChain)
	replicaB.InitChain(initChain)

	sawValidatorUpdate := false
	for i, txs := range blocks {
		height := int64(i + 1)
		begin := abcitypes.RequestBeginBlock{Header: tmproto.Header{Height: height, ChainID: demo1ChainID}}
		ba, bb := replicaA.BeginBlock(begin), replicaB.BeginBlock(begin)
		if !reflect.DeepEqual(ba.Events, bb.Events) {
			t.Fatalf("height %d: BeginBlock events differ", height)
		}
		for j, tx := range txs {
			da := replicaA.DeliverTx(abcitypes.RequestDeliverTx{Tx: tx})
			db := replicaB.DeliverTx(abcitypes.RequestDeliverTx{Tx: tx})
			if da.Code != 0 {
				t.Fatalf("height %d tx %d: unexpected code %d: %s", height, j, da.Code, da.Log)
			}
			if da.Code != db.Code || !reflect.DeepEqual(da.Events, db.Events) {
				t.Fatalf("height %d tx %d: DeliverTx results differ", height, j)
			}
		}
		end := abcitypes.RequestEndBlock{Height: height}
		ea, eb := replicaA.EndBlock(end), replicaB.EndBlock(end)
		if len(ea.ValidatorUpdates) > 0 || len(eb.ValidatorUpdates) > 0 {
			sawValidatorUpdate = true
		}
		if !reflect.DeepEqual(ea.Events, eb.Events) {
			t.Fatalf("height %d: EndBlock events differ", height)
		}
		if !reflect.DeepEqual(ea.ValidatorUpdates, eb.ValidatorUpdates) {
			t.Fatalf("C09 violated at height %d: same genesis, same blocks, but EndBlock validator updates differ:\n"+
				"  replica A (%d updates): %v\n  replica B (%d updates): %v",
				height, len(ea.ValidatorUpdates), ea.ValidatorUpdates, len(eb.ValidatorUpdates), eb.ValidatorUpdates)
		}
		replicaA.Commit()
		replicaB.Commit()
	}
	if !sawValidatorUpdate {
		t.Fatal("test is vacuous: the block sequence did not produce a validator update")
	}
}
