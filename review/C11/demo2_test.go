package app

import (
	"crypto/ecdsa"
	"encoding/base64"
	"testing"

	"github.com/ethereum/go-ethereum/common"
	"github.com/ethereum/go-ethereum/crypto"
	"github.com/tendermint/go-amino"
	abcitypes "github.com/tendermint/tendermint/abci/types"

	"github.com/shutter-network/rolling-shutter/rolling-shutter/shmsg"
)

// C11 demo 2: the genesis keyper list is only checked with BatchConfig.EnsureValid, which does not
// reject duplicate addresses (BatchConfigFromMessage does, InitChain does not). EndBlock counts the
// block-seen quorum per entry of Configs[i-1].Keypers, not per distinct keyper, so a keyper that is
// listed twice in the genesis set satisfies a threshold of 2 on its own and a config gets marked
// started although only ONE keyper of the preceding config reported its activation block.

func demo2Deliver(
	t *testing.T, app *ShutterApp, key *ecdsa.PrivateKey, nonce uint64, msg *shmsg.Message,
) abcitypes.ResponseDeliverTx {
	t.Helper()
	signed, err := shmsg.SignMessage(&shmsg.MessageWithNonce{
		Msg:         msg,
		ChainId:     []byte(app.ChainID),
		RandomNonce: nonce,
	}, key)
	if err != nil {
		t.Fatal(err)
	}
	tx := []byte(base64.RawURLEncoding.EncodeToString(signed))
	return app.DeliverTx(abcitypes.RequestDeliverTx{Tx: tx})
}

func TestDemo2DuplicateGenesisKeyperMeetsBlockSeenQuorumAlone(t *testing.T) {
	var keys []*ecdsa.PrivateKey
	var addrs []common.Address
	for i := 0; i < 3; i++ {
		k, err := crypto.GenerateKey()
		if err != nil {
			t.Fatal(err)
		}
		keys = append(keys, k)
		addrs = append(addrs, crypto.PubkeyToAddress(k.PublicKey))
	}
	a, b, c := addrs[0], addrs[1], addrs[2]

	// This is what `chain init --genesis-keyper A --genesis-keyper A --genesis-keyper B` writes:
	// keypers [A, A, B], threshold (2*3+2)/3 = 2.
	genesisKeypers := []common.Address{a, a, b}
	genesis := NewGenesisAppState(genesisKeypers, (2*len(genesisKeypers)+2)/3, 0, nil)
	genesisBytes, err := amino.NewCodec().MarshalJSON(genesis)
	if err != nil {
		t.Fatal(err)
	}
	app := NewShutterApp()
	app.InitChain(abcitypes.RequestInitChain{ChainId: "demo2", AppStateBytes: genesisBytes})
	threshold := app.Configs[0].Threshold
	if threshold != 2 {
		t.Fatalf("unexpected genesis threshold %d", threshold)
	}

	// A and B (two distinct keypers = threshold) legitimately vote for config 1, activation 100.
	const activation = 100
	cfg1 := shmsg.NewBatchConfig(activation, []common.Address{c}, 1, 1)
	for i, k := range keys[:2] {
		res := demo2Deliver(t, app, k, uint64(i+1), cfg1)
		if res.Code != 0 {
			t.Fatalf("vote rejected: %s", res.Log)
		}
	}
	if len(app.Configs) != 2 || app.Configs[1].KeyperConfigIndex != 1 {
		t.Fatal("config 1 was not accepted")
	}

	// Only keyper A reports main-chain block 100. B (and everybody else) reports nothing.
	res := demo2Deliver(t, app, keys[0], 10, shmsg.NewBlockSeen(activation))
	if res.Code != 0 {
		t.Fatalf("block seen rejected: %s", res.Log)
	}
	endRes := app.EndBlock(abcitypes.RequestEndBlock{Height: 1})
	t.Logf("EndBlock emitted %d event(s)", len(endRes.Events))

	// What the property says: config 1 may be started only after >= threshold(config 0) keypers
	// of config 0 reported a block >= its activation block.
	reporters := map[common.Address]bool{}
	for _, k := range app.Configs[0].Keypers {
		if seen, ok := app.BlocksSeen[k]; ok && seen >= activation {
			reporters[k] = true
		}
	}
	if app.Configs[1].Started && uint64(len(reporters)) < threshold {
		t.Errorf("C11 violated: config 1 marked started after %d keyper(s) of the preceding config reported block %d, threshold is %d",
			len(reporters), activation, threshold)
	}
}
