package app

import (
	"crypto/ecdsa"
	"encoding/base64"
	"testing"

	"github.com/ethereum/go-ethereum/common"
	"github.com/ethereum/go-ethereum/crypto"
	"github.com/tendermint/go-amino"
	abcitypes "github.com/tendermint/tendermint/abci/types"

	"github.com/shutter-network/rolling-shutter/rolling-shutter/shmsg"
)

// C11 demo 1: a threshold >= 2^63 slips through BatchConfig.EnsureValid (int(bc.Threshold) wraps
// negative) and, once such a config is the latest one, int(app.LastConfig().Threshold) /
// int(dkg.Config.Threshold) are negative, so a SINGLE vote changes the keyper set and a SINGLE
// failure report restarts the DKG.

type demo1Keyper struct {
	key  *ecdsa.PrivateKey
	addr common.Address
}

func demo1NewKeypers(t *testing.T, n int) []demo1Keyper {
	t.Helper()
	var res []demo1Keyper
	for i := 0; i < n; i++ {
		k, err := crypto.GenerateKey()
		if err != nil {
			t.Fatal(err)
		}
		res = append(res, demo1Keyper{key: k, addr: crypto.PubkeyToAddress(k.PublicKey)})
	}
	return res
}

var demo1Nonce uint64

func demo1Deliver(t *testing.T, app *ShutterApp, k demo1Keyper, msg *shmsg.Message) abcitypes.ResponseDeliverTx {
	t.Helper()
	demo1Nonce++
	signed, err := shmsg.SignMessage(&shmsg.MessageWithNonce{
		Msg:         msg,
		ChainId:     []byte(app.ChainID),
		RandomNonce: demo1Nonce,
	}, k.key)
	if err != nil {
		t.Fatal(err)
	}
	tx := []byte(base64.RawURLEncoding.EncodeToString(signed))
	return app.DeliverTx(abcitypes.RequestDeliverTx{Tx: tx})
}

func TestDemo1HugeThresholdLetsSingleKeyperChangeKeyperSet(t *testing.T) {
	keypers := demo1NewKeypers(t, 3)
	outsider := demo1NewKeypers(t, 1)[0]
	addrs := []common.Address{keypers[0].addr, keypers[1].addr, keypers[2].addr}

	app := NewShutterApp()
	genesis := NewGenesisAppState(addrs, 2, 0, nil)
	genesisBytes, err := amino.NewCodec().MarshalJSON(genesis)
	if err != nil {
		t.Fatal(err)
	}
	app.InitChain(abcitypes.RequestInitChain{ChainId: "demo1", AppStateBytes: genesisBytes})

	// Round 1: two of three keypers (= the genesis threshold) vote for a config whose threshold
	// does not fit into the keyper set at all: 2^63 "out of" 3 keypers.
	const hugeThreshold = uint64(1) << 63
	cfg1 := shmsg.NewBatchConfig(10, addrs, hugeThreshold, 1)
	for _, k := range keypers[:2] {
		res := demo1Deliver(t, app, k, cfg1)
		if res.Code != 0 {
			t.Logf("vote for config with threshold 2^63 rejected (good): %s", res.Log)
		}
	}
	if len(app.Configs) == 2 {
		t.Errorf("config with threshold %d > %d keypers was accepted (spec: reject if threshold is greater than the number of keypers)",
			app.LastConfig().Threshold, len(app.LastConfig().Keypers))
	} else {
		return // config was rejected, nothing more to show
	}
	eonAfterCfg1 := app.EONCounter

	// Same conversion in maybeStartEon: one failure report restarts the DKG of the eon whose
	// config has threshold 2^63.
	dkg, ok := app.DKGMap[eonAfterCfg1]
	if !ok {
		t.Fatalf("no dkg for eon %d", eonAfterCfg1)
	}
	before := app.EONCounter
	dkgRes := demo1Deliver(t, app, keypers[0], shmsg.NewDKGResult(eonAfterCfg1, false))
	t.Logf("single dkg failure report: code=%d events=%d", dkgRes.Code, len(dkgRes.Events))
	if app.EONCounter != before && dkg.Config.Threshold > 1 {
		t.Errorf("C11 violated: DKG restarted (eon %d -> %d) after 1 failure report, threshold is %d",
			before, app.EONCounter, dkg.Config.Threshold)
	}

	// Round 2: the current config now has threshold 2^63 and 3 keypers. ONE keyper votes for a
	// config that hands the keyper set to an outsider.
	if uint64(1) >= app.LastConfig().Threshold {
		t.Fatal("test setup broken")
	}
	cfg2 := shmsg.NewBatchConfig(10, []common.Address{outsider.addr}, 1, 2)
	res := demo1Deliver(t, app, keypers[2], cfg2)
	t.Logf("single vote response: code=%d log=%q events=%d", res.Code, res.Log, len(res.Events))
	if app.LastConfig().KeyperConfigIndex == 2 {
		t.Errorf("C11 violated: config index 2 accepted after 1 vote, but the current config's threshold is %d",
			hugeThreshold)
	}
}
