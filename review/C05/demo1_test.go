package gnosiskeyperwatcher

// C05 demo: a DecryptionKeys gossip message that does not carry the Gnosis
// "extra" crashes the gnosis keyper watcher node (`gnosiskeyper watch`).
//
// KeysWatcher.ValidateMessage accepts every DecryptionKeys message, and
// KeysWatcher.HandleMessage then does an unchecked type assertion
// msg.Extra.(*p2pmsg.DecryptionKeys_Gnosis).Gnosis. The handler runs inside
// P2PMessaging.runHandleMessages, which has no recover, so the panic kills
// the process.
//
// The test drives the real code path: wire bytes -> p2p.UnmarshalPubsubMessage
// (what the libp2p validator and the handler loop both call) -> the watcher's
// ValidateMessage -> P2PMessaging.Handle (the dispatcher used by the handler
// loop) -> KeysWatcher.HandleMessage.

import (
	"context"
	"testing"

	pubsub "github.com/libp2p/go-libp2p-pubsub"
	pubsubpb "github.com/libp2p/go-libp2p-pubsub/pb"

	"github.com/shutter-network/rolling-shutter/rolling-shutter/p2p"
	"github.com/shutter-network/rolling-shutter/rolling-shutter/p2pmsg"
)

func TestC05WatcherSurvivesKeysMessageWithoutGnosisExtra(t *testing.T) {
	// A real P2PMessaging instance (never started, so no network is used), set up
	// exactly like KeysWatcher.Start does it.
	p2pConfig := p2p.NewConfig()
	if err := p2pConfig.SetExampleValues(); err != nil {
		t.Fatal(err)
	}
	messaging, err := p2p.New(p2pConfig)
	if err != nil {
		t.Fatal(err)
	}
	watcher := NewKeysWatcher(nil, make(chan *BlockReceivedEvent))
	messaging.AddMessageHandler(watcher)

	witnesses := map[string]*p2pmsg.DecryptionKeys{
		// what every non-Gnosis keyper (snapshot, primev, optimism) publishes on the same topic
		"no extra": {InstanceId: 1, Eon: 1},
		// what a shutter-service keyper publishes on the same topic
		"service extra": {
			InstanceId: 1, Eon: 1,
			Extra: &p2pmsg.DecryptionKeys_Service{Service: &p2pmsg.ShutterServiceDecryptionKeysExtra{}},
		},
	}

	for name, keysMsg := range witnesses {
		keysMsg := keysMsg
		t.Run(name, func(t *testing.T) {
			data, err := p2pmsg.Marshal(keysMsg, nil)
			if err != nil {
				t.Fatal(err)
			}
			topic := keysMsg.Topic()
			wire := &pubsub.Message{Message: &pubsubpb.Message{Data: data, Topic: &topic}}

			defer func() {
				if r := recover(); r != nil {
					t.Fatalf("C05 violated: gossip message %x on topic %q made the node panic: %v", data, topic, r)
				}
			}()

			// validation as done by the registered libp2p topic validator
			msg, _, err := p2p.UnmarshalPubsubMessage(wire)
			if err != nil {
				t.Logf("rejected while unmarshalling: %v", err)
				return
			}
			res, err := watcher.ValidateMessage(context.Background(), msg)
			if res != pubsub.ValidationAccept {
				t.Logf("validator did not accept (%v, %v): message would be dropped", res, err)
				return
			}

			// handling as done by P2PMessaging.runHandleMessages -> handle -> Handle
			_, err = messaging.Handle(context.Background(), msg)
			t.Logf("handled without panic (err=%v)", err)
		})
	}
}
