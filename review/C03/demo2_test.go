package gnosis

// demo2: property C03 for the Gnosis flavour ("... emits a keys message that every other keyper,
// and for Gnosis the access node, accepts.  A message produced by an honest keyper is always
// accepted by honest peers of the same flavour").
//
// n=3, t=2, keypers B (index 0), A (index 1), C (index 2).
//
//   - slot 10: all three keypers are triggered, all messages are delivered.  Every message is
//     accepted by every peer, everybody stores the keys, the tx pointer advances to 2.
//   - slot 11: B and C are triggered; their share messages reach A *before* A has processed its
//     own slot-11 trigger (A's slot ticker is a few milliseconds behind).  With C's message A has
//     t shares, the core handler produces the DecryptionKeys message and the Gnosis
//     MessagingMiddleware.interceptDecryptionKeys decorates it with slot, tx pointer and the t
//     signatures of A's *current decryption trigger* -- which is still the one of slot 10.  It never
//     checks that the keys belong to that trigger.  A therefore emits
//     DecryptionKeys{keys of slot 11, slot=10, txPointer=0, signatures over the slot-10 identities},
//     which A's own validator (local publish), B, and C all reject ("slot decryption signature
//     invalid").  On the way, advanceTxPointer moves A's tx pointer backwards (2 -> 1), so that
//     A's own slot-11 trigger afterwards signs a different identity set than B and C.
//
// Everything runs on the real code: Keyper.triggerDecryption, epochkghandler.KeyShareHandler,
// the core and Gnosis handlers/validators and the Gnosis MessagingMiddleware, wired as in
// Keyper.Start; Postgres is replaced by an in-process pgwire stand-in that answers exactly the
// sqlc queries used on this path.

import (
	"bytes"
	"context"
	"crypto/rand"
	"encoding/binary"
	"encoding/hex"
	"fmt"
	"net"
	"regexp"
	"sort"
	"strconv"
	"strings"
	"sync"
	"testing"
	"time"

	"github.com/ethereum/go-ethereum/common"
	"github.com/jackc/pgproto3/v2"
	"github.com/jackc/pgx/v4/pgxpool"
	pubsub "github.com/libp2p/go-libp2p-pubsub"
	"github.com/pkg/errors"

	"github.com/shutter-network/shutter/shlib/puredkg"
	"github.com/shutter-network/shutter/shlib/shcrypto"

	obskeyper "github.com/shutter-network/rolling-shutter/rolling-shutter/chainobserver/db/keyper"
	corekeyperdatabase "github.com/shutter-network/rolling-shutter/rolling-shutter/keyper/database"
	"github.com/shutter-network/rolling-shutter/rolling-shutter/keyper/epochkghandler"
	gnosisdatabase "github.com/shutter-network/rolling-shutter/rolling-shutter/keyperimpl/gnosis/database"
	"github.com/shutter-network/rolling-shutter/rolling-shutter/medley/broker"
	"github.com/shutter-network/rolling-shutter/rolling-shutter/medley/configuration"
	"github.com/shutter-network/rolling-shutter/rolling-shutter/medley/encodeable/keys"
	"github.com/shutter-network/rolling-shutter/rolling-shutter/medley/retry"
	"github.com/shutter-network/rolling-shutter/rolling-shutter/medley/service"
	"github.com/shutter-network/rolling-shutter/rolling-shutter/medley/testkeygen"
	"github.com/shutter-network/rolling-shutter/rolling-shutter/p2p"
	"github.com/shutter-network/rolling-shutter/rolling-shutter/p2pmsg"
	"github.com/shutter-network/rolling-shutter/rolling-shutter/shdb"
)

// ---------------------------------------------------------------------------------------------
// in-process Postgres stand-in
// ---------------------------------------------------------------------------------------------

const (
	d2Bool    = 16
	d2Bytea   = 17
	d2Int8    = 20
	d2Int4    = 23
	d2Text    = 25
	d2TextArr = 1009
)

type d2Row = map[string]any

type d2Store struct {
	mu sync.Mutex
	t  map[string][]d2Row
}

func (s *d2Store) sel(table string, pred func(d2Row) bool) []d2Row {
	out := []d2Row{}
	for _, r := range s.t[table] {
		if pred(r) {
			out = append(out, r)
		}
	}
	return out
}

// insert with ON CONFLICT DO NOTHING semantics on the given key columns.
func (s *d2Store) insert(table string, row d2Row, key ...string) string {
	for _, r := range s.t[table] {
		same := true
		for _, k := range key {
			if !d2Eq(r[k], row[k]) {
				same = false
				break
			}
		}
		if same {
			return "INSERT 0 0"
		}
	}
	s.t[table] = append(s.t[table], row)
	return "INSERT 0 1"
}

func d2Eq(a, b any) bool {
	ab, ok1 := a.([]byte)
	bb, ok2 := b.([]byte)
	if ok1 && ok2 {
		return bytes.Equal(ab, bb)
	}
	return a == b
}

type d2Col struct {
	name string
	oid  uint32
}

type d2Query struct {
	params []uint32
	cols   []d2Col
	run    func(s *d2Store, a []any) ([][]any, string)
}

func d2Project(rows []d2Row, cols []d2Col) [][]any {
	out := [][]any{}
	for _, r := range rows {
		vals := []any{}
		for _, c := range cols {
			vals = append(vals, r[c.name])
		}
		out = append(out, vals)
	}
	return out
}

var (
	d2ShareCols = []d2Col{{"eon", d2Int8}, {"epoch_id", d2Bytea}, {"keyper_index", d2Int8}, {"decryption_key_share", d2Bytea}}
	d2KeyCols   = []d2Col{{"eon", d2Int8}, {"epoch_id", d2Bytea}, {"decryption_key", d2Bytea}}
	d2DKGCols   = []d2Col{{"eon", d2Int8}, {"success", d2Bool}, {"error", d2Text}, {"pure_result", d2Bytea}}
	d2EonCols   = []d2Col{{"eon", d2Int8}, {"height", d2Int8}, {"activation_block_number", d2Int8}, {"keyper_config_index", d2Int8}}
	d2BCCols    = []d2Col{
		{"keyper_config_index", d2Int4},
		{"height", d2Int8},
		{"keypers", d2TextArr},
		{"threshold", d2Int4},
		{"started", d2Bool},
		{"activation_block_number", d2Int8},
	}
)

// the sqlc queries (identified by their "-- name:" header) used by the code under test.
var d2Queries = map[string]*d2Query{
	"GetBatchConfig": {
		params: []uint32{d2Int4}, cols: d2BCCols,
		run: func(s *d2Store, a []any) ([][]any, string) {
			rows := s.sel("tendermint_batch_config", func(r d2Row) bool { return r["keyper_config_index"] == a[0] })
			return d2Project(rows, d2BCCols), "SELECT"
		},
	},
	"GetEonForBlockNumber": {
		params: []uint32{d2Int8}, cols: d2EonCols,
		run: func(s *d2Store, a []any) ([][]any, string) {
			rows := s.sel("eons", func(r d2Row) bool { return r["activation_block_number"].(int64) <= a[0].(int64) })
			sort.SliceStable(rows, func(i, j int) bool {
				ai, aj := rows[i]["activation_block_number"].(int64), rows[j]["activation_block_number"].(int64)
				if ai != aj {
					return ai > aj
				}
				return rows[i]["height"].(int64) > rows[j]["height"].(int64)
			})
			if len(rows) > 1 {
				rows = rows[:1]
			}
			return d2Project(rows, d2EonCols), "SELECT"
		},
	},
	"GetDKGResult": {
		params: []uint32{d2Int8}, cols: d2DKGCols,
		run: func(s *d2Store, a []any) ([][]any, string) {
			rows := s.sel("dkg_result", func(r d2Row) bool { return r["eon"] == a[0] })
			return d2Project(rows, d2DKGCols), "SELECT"
		},
	},
	"GetDKGResultForKeyperConfigIndex": {
		params: []uint32{d2Int8}, cols: d2DKGCols,
		run: func(s *d2Store, a []any) ([][]any, string) {
			maxEon := int64(-1)
			for _, r := range s.sel("eons", func(r d2Row) bool { return r["keyper_config_index"] == a[0] }) {
				if r["eon"].(int64) > maxEon {
					maxEon = r["eon"].(int64)
				}
			}
			rows := s.sel("dkg_result", func(r d2Row) bool { return r["eon"] == maxEon })
			return d2Project(rows, d2DKGCols), "SELECT"
		},
	},
	"ExistsDecryptionKeyShare": {
		params: []uint32{d2Int8, d2Bytea, d2Int8}, cols: []d2Col{{"exists", d2Bool}},
		run: func(s *d2Store, a []any) ([][]any, string) {
			rows := s.sel("decryption_key_share", func(r d2Row) bool {
				return r["eon"] == a[0] && d2Eq(r["epoch_id"], a[1]) && r["keyper_index"] == a[2]
			})
			return [][]any{{len(rows) > 0}}, "SELECT"
		},
	},
	"ExistsDecryptionKey": {
		params: []uint32{d2Int8, d2Bytea}, cols: []d2Col{{"exists", d2Bool}},
		run: func(s *d2Store, a []any) ([][]any, string) {
			rows := s.sel("decryption_key", func(r d2Row) bool { return r["eon"] == a[0] && d2Eq(r["epoch_id"], a[1]) })
			return [][]any{{len(rows) > 0}}, "SELECT"
		},
	},
	"InsertDecryptionKeyShare": {
		params: []uint32{d2Int8, d2Bytea, d2Int8, d2Bytea},
		run: func(s *d2Store, a []any) ([][]any, string) {
			return nil, s.insert("decryption_key_share",
				d2Row{"eon": a[0], "epoch_id": a[1], "keyper_index": a[2], "decryption_key_share": a[3]},
				"eon", "epoch_id", "keyper_index")
		},
	},
	"SelectDecryptionKeyShares": {
		params: []uint32{d2Int8, d2Bytea}, cols: d2ShareCols,
		run: func(s *d2Store, a []any) ([][]any, string) {
			rows := s.sel("decryption_key_share", func(r d2Row) bool { return r["eon"] == a[0] && d2Eq(r["epoch_id"], a[1]) })
			return d2Project(rows, d2ShareCols), "SELECT"
		},
	},
	"InsertDecryptionKey": {
		params: []uint32{d2Int8, d2Bytea, d2Bytea},
		run: func(s *d2Store, a []any) ([][]any, string) {
			return nil, s.insert("decryption_key",
				d2Row{"eon": a[0], "epoch_id": a[1], "decryption_key": a[2]}, "eon", "epoch_id")
		},
	},
	"GetDecryptionKey": {
		params: []uint32{d2Int8, d2Bytea}, cols: d2KeyCols,
		run: func(s *d2Store, a []any) ([][]any, string) {
			rows := s.sel("decryption_key", func(r d2Row) bool { return r["eon"] == a[0] && d2Eq(r["epoch_id"], a[1]) })
			return d2Project(rows, d2KeyCols), "SELECT"
		},
	},
}

// the additional sqlc queries of the Gnosis keyper and the chain observer used on this path.
var (
	d2TriggerCols = []d2Col{{"eon", d2Int8}, {"slot", d2Int8}, {"tx_pointer", d2Int8}, {"identities_hash", d2Bytea}}
	d2SigCols     = []d2Col{
		{"eon", d2Int8},
		{"slot", d2Int8},
		{"keyper_index", d2Int8},
		{"tx_pointer", d2Int8},
		{"identities_hash", d2Bytea},
		{"signature", d2Bytea},
	}
	d2TxPointerCols = []d2Col{{"eon", d2Int8}, {"age", d2Int8}, {"value", d2Int8}}
	d2KeyperSetCols = []d2Col{
		{"keyper_config_index", d2Int8},
		{"activation_block_number", d2Int8},
		{"keypers", d2TextArr},
		{"threshold", d2Int4},
	}
	d2TxEventCols = []d2Col{
		{"index", d2Int8},
		{"block_number", d2Int8},
		{"block_hash", d2Bytea},
		{"tx_index", d2Int8},
		{"log_index", d2Int8},
		{"eon", d2Int8},
		{"identity_prefix", d2Bytea},
		{"sender", d2Text},
		{"gas_limit", d2Int8},
	}
)

func (s *d2Store) upsert(table string, row d2Row, key string) string {
	for i, r := range s.t[table] {
		if r[key] == row[key] {
			s.t[table][i] = row
			return "INSERT 0 1"
		}
	}
	s.t[table] = append(s.t[table], row)
	return "INSERT 0 1"
}

func init() {
	d2Queries["GetKeyperSetByKeyperConfigIndex"] = &d2Query{
		params: []uint32{d2Int8}, cols: d2KeyperSetCols,
		run: func(s *d2Store, a []any) ([][]any, string) {
			rows := s.sel("keyper_set", func(r d2Row) bool { return r["keyper_config_index"] == a[0] })
			return d2Project(rows, d2KeyperSetCols), "SELECT"
		},
	}
	d2Queries["GetCurrentDecryptionTrigger"] = &d2Query{
		params: []uint32{d2Int8}, cols: d2TriggerCols,
		run: func(s *d2Store, a []any) ([][]any, string) {
			rows := s.sel("current_decryption_trigger", func(r d2Row) bool { return r["eon"] == a[0] })
			return d2Project(rows, d2TriggerCols), "SELECT"
		},
	}
	d2Queries["SetCurrentDecryptionTrigger"] = &d2Query{
		params: []uint32{d2Int8, d2Int8, d2Int8, d2Bytea},
		run: func(s *d2Store, a []any) ([][]any, string) {
			return nil, s.upsert("current_decryption_trigger",
				d2Row{"eon": a[0], "slot": a[1], "tx_pointer": a[2], "identities_hash": a[3]}, "eon")
		},
	}
	d2Queries["InsertSlotDecryptionSignature"] = &d2Query{
		params: []uint32{d2Int8, d2Int8, d2Int8, d2Int8, d2Bytea, d2Bytea},
		run: func(s *d2Store, a []any) ([][]any, string) {
			return nil, s.insert("slot_decryption_signatures", d2Row{
				"eon": a[0], "slot": a[1], "keyper_index": a[2], "tx_pointer": a[3], "identities_hash": a[4], "signature": a[5],
			}, "eon", "slot", "keyper_index")
		},
	}
	d2Queries["GetSlotDecryptionSignatures"] = &d2Query{
		params: []uint32{d2Int8, d2Int8, d2Int8, d2Bytea, d2Int4}, cols: d2SigCols,
		run: func(s *d2Store, a []any) ([][]any, string) {
			rows := s.sel("slot_decryption_signatures", func(r d2Row) bool {
				return r["eon"] == a[0] && r["slot"] == a[1] && r["tx_pointer"] == a[2] && d2Eq(r["identities_hash"], a[3])
			})
			sort.SliceStable(rows, func(i, j int) bool { return rows[i]["keyper_index"].(int64) < rows[j]["keyper_index"].(int64) })
			if limit := int(a[4].(int64)); len(rows) > limit {
				rows = rows[:limit]
			}
			return d2Project(rows, d2SigCols), "SELECT"
		},
	}
	d2Queries["GetTxPointer"] = &d2Query{
		params: []uint32{d2Int8}, cols: d2TxPointerCols,
		run: func(s *d2Store, a []any) ([][]any, string) {
			rows := s.sel("tx_pointer", func(r d2Row) bool { return r["eon"] == a[0] })
			return d2Project(rows, d2TxPointerCols), "SELECT"
		},
	}
	d2Queries["SetTxPointer"] = &d2Query{
		params: []uint32{d2Int8, d2Int8, d2Int8},
		run: func(s *d2Store, a []any) ([][]any, string) {
			return nil, s.upsert("tx_pointer", d2Row{"eon": a[0], "age": a[1], "value": a[2]}, "eon")
		},
	}
	d2Queries["GetTransactionSubmittedEvents"] = &d2Query{
		params: []uint32{d2Int8, d2Int8, d2Int4}, cols: d2TxEventCols,
		run: func(s *d2Store, a []any) ([][]any, string) {
			from, limit := a[1].(int64), a[2].(int64)
			rows := s.sel("transaction_submitted_event", func(r d2Row) bool {
				idx := r["index"].(int64)
				return r["eon"] == a[0] && idx >= from && idx < from+limit
			})
			sort.SliceStable(rows, func(i, j int) bool { return rows[i]["index"].(int64) < rows[j]["index"].(int64) })
			if int64(len(rows)) > limit {
				rows = rows[:limit]
			}
			return d2Project(rows, d2TxEventCols), "SELECT"
		},
	}
}

func d2Decode(oid uint32, format int16, b []byte) any {
	if b == nil {
		return nil
	}
	switch oid {
	case d2Int8, d2Int4:
		if format == 1 {
			if len(b) == 8 {
				return int64(binary.BigEndian.Uint64(b))
			}
			return int64(int32(binary.BigEndian.Uint32(b)))
		}
		v, _ := strconv.ParseInt(string(b), 10, 64)
		return v
	case d2Bool:
		if format == 1 {
			return b[0] != 0
		}
		return string(b) == "t" || string(b) == "true"
	case d2Bytea:
		if format == 1 {
			return append([]byte{}, b...)
		}
		d, _ := hex.DecodeString(strings.TrimPrefix(string(b), `\x`))
		return d
	default:
		return string(b)
	}
}

func d2Encode(oid uint32, format int16, v any) []byte {
	if v == nil {
		return nil
	}
	switch oid {
	case d2Int8:
		if format == 1 {
			return binary.BigEndian.AppendUint64(nil, uint64(v.(int64)))
		}
		return []byte(strconv.FormatInt(v.(int64), 10))
	case d2Int4:
		if format == 1 {
			return binary.BigEndian.AppendUint32(nil, uint32(v.(int64)))
		}
		return []byte(strconv.FormatInt(v.(int64), 10))
	case d2Bool:
		if format == 1 {
			if v.(bool) {
				return []byte{1}
			}
			return []byte{0}
		}
		if v.(bool) {
			return []byte("t")
		}
		return []byte("f")
	case d2Bytea:
		if format == 1 {
			return append([]byte{}, v.([]byte)...)
		}
		return []byte(`\x` + hex.EncodeToString(v.([]byte)))
	case d2TextArr:
		elems := v.([]string)
		if format == 1 {
			out := []byte{}
			if len(elems) == 0 {
				out = binary.BigEndian.AppendUint32(out, 0)
				out = binary.BigEndian.AppendUint32(out, 0)
				return binary.BigEndian.AppendUint32(out, d2Text)
			}
			out = binary.BigEndian.AppendUint32(out, 1)
			out = binary.BigEndian.AppendUint32(out, 0)
			out = binary.BigEndian.AppendUint32(out, d2Text)
			out = binary.BigEndian.AppendUint32(out, uint32(len(elems)))
			out = binary.BigEndian.AppendUint32(out, 1)
			for _, e := range elems {
				out = binary.BigEndian.AppendUint32(out, uint32(len(e)))
				out = append(out, e...)
			}
			return out
		}
		quoted := []string{}
		for _, e := range elems {
			quoted = append(quoted, strconv.Quote(e))
		}
		return []byte("{" + strings.Join(quoted, ",") + "}")
	default:
		return []byte(v.(string))
	}
}

func d2Format(codes []int16, i int) int16 {
	switch len(codes) {
	case 0:
		return 0
	case 1:
		return codes[0]
	default:
		return codes[i]
	}
}

var d2NameRE = regexp.MustCompile(`^-- name: (\w+) :`)

type d2Portal struct {
	q       *d2Query
	args    []any
	formats []int16
}

func d2RowDescription(q *d2Query, formats []int16) pgproto3.BackendMessage {
	if len(q.cols) == 0 {
		return &pgproto3.NoData{}
	}
	fields := []pgproto3.FieldDescription{}
	for i, c := range q.cols {
		f := int16(0)
		if formats != nil {
			f = d2Format(formats, i)
		}
		fields = append(fields, pgproto3.FieldDescription{
			Name: []byte(c.name), DataTypeOID: c.oid, DataTypeSize: -1, TypeModifier: -1, Format: f,
		})
	}
	return &pgproto3.RowDescription{Fields: fields}
}

func d2Serve(conn net.Conn, store *d2Store) {
	defer conn.Close()
	be := pgproto3.NewBackend(pgproto3.NewChunkReader(conn), conn)
	sm, err := be.ReceiveStartupMessage()
	if err != nil {
		return
	}
	if _, ok := sm.(*pgproto3.SSLRequest); ok {
		if _, err := conn.Write([]byte("N")); err != nil {
			return
		}
		if _, err = be.ReceiveStartupMessage(); err != nil {
			return
		}
	}
	send := func(msgs ...pgproto3.BackendMessage) {
		for _, m := range msgs {
			_ = be.Send(m)
		}
	}
	send(
		&pgproto3.AuthenticationOk{},
		&pgproto3.ParameterStatus{Name: "server_version", Value: "14.0"},
		&pgproto3.ParameterStatus{Name: "client_encoding", Value: "UTF8"},
		&pgproto3.ParameterStatus{Name: "standard_conforming_strings", Value: "on"},
		&pgproto3.ParameterStatus{Name: "integer_datetimes", Value: "on"},
		&pgproto3.BackendKeyData{ProcessID: 1, SecretKey: 1},
		&pgproto3.ReadyForQuery{TxStatus: 'I'},
	)
	stmts := map[string]*d2Query{}
	portals := map[string]*d2Portal{}
	failed := false
	fail := func(text string) {
		failed = true
		send(&pgproto3.ErrorResponse{Severity: "ERROR", Code: "0A000", Message: "fake postgres: " + text})
	}
	for {
		msg, err := be.Receive()
		if err != nil {
			return
		}
		if _, isSync := msg.(*pgproto3.Sync); failed && !isSync {
			continue
		}
		switch m := msg.(type) {
		case *pgproto3.Parse:
			match := d2NameRE.FindStringSubmatch(m.Query)
			if match == nil || d2Queries[match[1]] == nil {
				fail("unsupported query: " + m.Query)
				continue
			}
			stmts[m.Name] = d2Queries[match[1]]
			send(&pgproto3.ParseComplete{})
		case *pgproto3.Describe:
			if m.ObjectType == 'S' {
				q := stmts[m.Name]
				send(&pgproto3.ParameterDescription{ParameterOIDs: q.params}, d2RowDescription(q, nil))
			} else {
				p := portals[m.Name]
				send(d2RowDescription(p.q, p.formats))
			}
		case *pgproto3.Bind:
			q := stmts[m.PreparedStatement]
			if q == nil || len(m.Parameters) != len(q.params) {
				fail("bad bind")
				continue
			}
			args := []any{}
			for i, p := range m.Parameters {
				args = append(args, d2Decode(q.params[i], d2Format(m.ParameterFormatCodes, i), p))
			}
			portals[m.DestinationPortal] = &d2Portal{q: q, args: args, formats: append([]int16{}, m.ResultFormatCodes...)}
			send(&pgproto3.BindComplete{})
		case *pgproto3.Execute:
			p := portals[m.Portal]
			store.mu.Lock()
			rows, tag := p.q.run(store, p.args)
			store.mu.Unlock()
			for _, r := range rows {
				vals := [][]byte{}
				for i, c := range p.q.cols {
					vals = append(vals, d2Encode(c.oid, d2Format(p.formats, i), r[i]))
				}
				send(&pgproto3.DataRow{Values: vals})
			}
			if tag == "SELECT" {
				tag = fmt.Sprintf("SELECT %d", len(rows))
			}
			send(&pgproto3.CommandComplete{CommandTag: []byte(tag)})
		case *pgproto3.Sync:
			failed = false
			send(&pgproto3.ReadyForQuery{TxStatus: 'I'})
		case *pgproto3.Query:
			send(&pgproto3.EmptyQueryResponse{}, &pgproto3.ReadyForQuery{TxStatus: 'I'})
		case *pgproto3.Close:
			send(&pgproto3.CloseComplete{})
		case *pgproto3.Terminate:
			return
		}
	}
}

func d2NewPool(ctx context.Context, t *testing.T, store *d2Store) *pgxpool.Pool {
	t.Helper()
	ln, err := net.Listen("tcp", "127.0.0.1:0")
	if err != nil {
		t.Fatalf("listen: %v", err)
	}
	go func() {
		for {
			conn, err := ln.Accept()
			if err != nil {
				return
			}
			go d2Serve(conn, store)
		}
	}()
	cfg, err := pgxpool.ParseConfig(fmt.Sprintf("postgres://test@%s/test?sslmode=disable", ln.Addr().String()))
	if err != nil {
		t.Fatalf("parse config: %v", err)
	}
	cfg.MaxConns = 2
	pool, err := pgxpool.ConnectConfig(ctx, cfg)
	if err != nil {
		t.Fatalf("connect to in-process postgres stand-in: %v", err)
	}
	t.Cleanup(func() {
		pool.Close()
		ln.Close()
	})
	return pool
}

// ---------------------------------------------------------------------------------------------
// three Gnosis keyper nodes, wired like Keyper.Start, each with its own database
// ---------------------------------------------------------------------------------------------

const (
	d2InstanceID        = uint64(42)
	d2Eon               = int64(22)
	d2KeyperConfigIndex = int64(1)
	d2N                 = 3
	d2T                 = 2
)

type d2CoreConfig struct{ address common.Address }

func (c d2CoreConfig) GetAddress() common.Address    { return c.address }
func (d2CoreConfig) GetInstanceID() uint64           { return d2InstanceID }
func (d2CoreConfig) GetMaxNumKeysPerMessage() uint64 { return 500 }

// d2Emission is a message the node handed to the gossip layer for publication, together with the
// result of the local validation libp2p performs on Publish.
type d2Emission struct {
	msg      p2pmsg.Message
	localErr error
}

type d2Node struct {
	t          *testing.T
	name       string
	index      int
	store      *d2Store
	pool       *pgxpool.Pool
	kpr        *Keyper
	handlers   []p2p.MessageHandler
	kshTrigger chan *broker.Event[*epochkghandler.DecryptionTrigger]
	emitted    []d2Emission
}

// d2Node plays the role of p2p.P2PMessaging ("messageSender" in Keyper.Start).
func (n *d2Node) Start(context.Context, service.Runner) error       { return nil }
func (n *d2Node) AddValidator(p2p.ValidatorFunc, ...p2pmsg.Message) {}
func (n *d2Node) AddMessageHandler(mhs ...p2p.MessageHandler) {
	n.handlers = append(n.handlers, mhs...)
}

func (n *d2Node) handlersFor(msg p2pmsg.Message) []p2p.MessageHandler {
	out := []p2p.MessageHandler{}
	for _, h := range n.handlers {
		for _, proto := range h.MessagePrototypes() {
			if proto.Topic() == msg.Topic() {
				out = append(out, h)
			}
		}
	}
	return out
}

// validate runs all validators the node registered for the topic (the combined validator of
// p2p.ValidatorRegistry): libp2p runs it for remote messages and, on Publish, for own messages.
func (n *d2Node) validate(ctx context.Context, msg p2pmsg.Message) error {
	for _, h := range n.handlersFor(msg) {
		res, err := h.ValidateMessage(ctx, msg)
		if res != pubsub.ValidationAccept {
			return errors.Errorf("keyper %s rejects %s: %v", n.name, msg.LogInfo(), err)
		}
	}
	return nil
}

func (n *d2Node) SendMessage(ctx context.Context, msg p2pmsg.Message, _ ...retry.Option) error {
	err := n.validate(ctx, msg)
	n.emitted = append(n.emitted, d2Emission{msg: msg, localErr: err})
	return err
}

func d2WireRoundTrip(t *testing.T, msg p2pmsg.Message) p2pmsg.Message {
	t.Helper()
	data, err := p2pmsg.Marshal(msg, nil)
	if err != nil {
		t.Fatalf("marshal: %v", err)
	}
	decoded, _, err := p2pmsg.Unmarshal(data)
	if err != nil {
		t.Fatalf("unmarshal: %v", err)
	}
	if err := decoded.Validate(); err != nil {
		t.Fatalf("validate: %v", err)
	}
	return decoded
}

// accepts tells whether the node's gossip validators accept a message sent by another node.
func (n *d2Node) accepts(ctx context.Context, msg p2pmsg.Message) error {
	return n.validate(ctx, d2WireRoundTrip(n.t, msg))
}

// receive delivers a message sent by another keyper (validators, then handlers, then publication
// of the handlers' output, as P2PMessaging.handle does) and returns what the node emitted.
func (n *d2Node) receive(ctx context.Context, msg p2pmsg.Message) []d2Emission {
	n.t.Helper()
	decoded := d2WireRoundTrip(n.t, msg)
	if err := n.validate(ctx, decoded); err != nil {
		n.t.Fatalf("message of an honest keyper was rejected: %v", err)
	}
	before := len(n.emitted)
	out := []p2pmsg.Message{}
	for _, h := range n.handlersFor(decoded) {
		msgs, err := h.HandleMessage(ctx, decoded)
		if err != nil {
			n.t.Fatalf("keyper %s: handler failed: %v", n.name, err)
		}
		out = append(out, msgs...)
	}
	for _, o := range out {
		_ = n.SendMessage(ctx, o) // P2PMessaging.handle logs a failed send and carries on
	}
	return n.emitted[before:]
}

// trigger lets the keyper process the start of a slot with the real Keyper.triggerDecryption and
// the real KeyShareHandler and returns the share message it published.
func (n *d2Node) trigger(ctx context.Context, slot uint64, nextBlock int64) p2pmsg.Message {
	n.t.Helper()
	before := len(n.emitted)
	err := n.kpr.triggerDecryption(ctx, slot, nextBlock, &obskeyper.KeyperSet{KeyperConfigIndex: d2KeyperConfigIndex})
	if err != nil {
		n.t.Fatalf("keyper %s: triggerDecryption: %v", n.name, err)
	}
	ev := <-n.kpr.decryptionTriggerChannel
	n.kshTrigger <- ev
	select {
	case res := <-ev.Result():
		if res.Error != nil {
			n.t.Fatalf("keyper %s: key share handler: %v", n.name, res.Error)
		}
	case <-time.After(30 * time.Second):
		n.t.Fatalf("keyper %s: key share handler did not finish", n.name)
	}
	for _, e := range n.emitted[before:] {
		if _, ok := e.msg.(*p2pmsg.DecryptionKeyShares); ok && e.localErr == nil {
			return e.msg
		}
	}
	n.t.Fatalf("keyper %s: expected a published share message, got %v", n.name, n.emitted[before:])
	return nil
}

func (n *d2Node) txPointer(ctx context.Context) int64 {
	n.t.Helper()
	p, err := gnosisdatabase.New(n.pool).GetTxPointer(ctx, d2KeyperConfigIndex)
	if err != nil {
		n.t.Fatalf("get tx pointer: %v", err)
	}
	return p.Value
}

func (n *d2Node) storedKey(ctx context.Context, id []byte) []byte {
	n.t.Helper()
	key, err := corekeyperdatabase.New(n.pool).GetDecryptionKey(ctx, corekeyperdatabase.GetDecryptionKeyParams{
		Eon: d2KeyperConfigIndex, EpochID: id,
	})
	if err != nil {
		return nil
	}
	return key.DecryptionKey
}

func d2NewNodes(ctx context.Context, t *testing.T, eonKeys *testkeygen.EonKeys) []*d2Node {
	t.Helper()
	ecdsaKeys := []*keys.ECDSAPrivate{}
	keypers := []string{}
	for i := 0; i < d2N; i++ {
		k, err := keys.GenerateECDSAKey(rand.Reader)
		if err != nil {
			t.Fatal(err)
		}
		ecdsaKeys = append(ecdsaKeys, k)
		keypers = append(keypers, shdb.EncodeAddress(k.EthereumAddress()))
	}
	publicKeyShares := []*shcrypto.EonPublicKeyShare{}
	for i := 0; i < d2N; i++ {
		publicKeyShares = append(publicKeyShares, eonKeys.EonPublicKeyShare(i))
	}
	nodes := []*d2Node{}
	for i := 0; i < d2N; i++ {
		pure, err := shdb.EncodePureDKGResult(&puredkg.Result{
			Eon:             uint64(d2Eon),
			NumKeypers:      d2N,
			Threshold:       d2T,
			Keyper:          uint64(i),
			SecretKeyShare:  eonKeys.EonSecretKeyShare(i),
			PublicKey:       eonKeys.EonPublicKey(),
			PublicKeyShares: publicKeyShares,
		})
		if err != nil {
			t.Fatalf("encode dkg result: %v", err)
		}
		// the state every keyper has after the keyper set was added and the DKG succeeded
		store := &d2Store{t: map[string][]d2Row{
			"tendermint_batch_config": {{
				"keyper_config_index": d2KeyperConfigIndex, "height": int64(0), "keypers": keypers,
				"threshold": int64(d2T), "started": true, "activation_block_number": int64(0),
			}},
			"eons": {{
				"eon": d2Eon, "height": int64(0), "activation_block_number": int64(0),
				"keyper_config_index": d2KeyperConfigIndex,
			}},
			"dkg_result": {{"eon": d2Eon, "success": true, "error": nil, "pure_result": pure}},
			"keyper_set": {{
				"keyper_config_index": d2KeyperConfigIndex, "activation_block_number": int64(0),
				"keypers": keypers, "threshold": int64(d2T),
			}},
		}}
		pool := d2NewPool(ctx, t, store)
		cfg := &Config{
			InstanceID:           d2InstanceID,
			MaxNumKeysPerMessage: 500,
			Gnosis: &GnosisConfig{
				Node:                 &configuration.EthnodeConfig{PrivateKey: ecdsaKeys[i]},
				EncryptedGasLimit:    1_000_000,
				MinGasPerTransaction: 21_000,
				MaxTxPointerAge:      5,
				SecondsPerSlot:       5,
				GenesisSlotTimestamp: uint64(time.Now().Unix()) - 60,
			},
		}
		coreCfg := d2CoreConfig{address: cfg.GetAddress()}
		node := &d2Node{
			t: t, name: []string{"B", "A", "C"}[i], index: i, store: store, pool: pool,
			kshTrigger: make(chan *broker.Event[*epochkghandler.DecryptionTrigger]),
		}
		node.kpr = &Keyper{
			config:                   cfg,
			dbpool:                   pool,
			decryptionTriggerChannel: make(chan *broker.Event[*epochkghandler.DecryptionTrigger], 1),
		}
		// the wiring of Keyper.Start / NewKeyper / KeyperCore
		node.AddMessageHandler(&DecryptionKeySharesHandler{pool})
		node.AddMessageHandler(&DecryptionKeysHandler{pool})
		middleware := NewMessagingMiddleware(node, pool, cfg)
		middleware.AddMessageHandler(
			epochkghandler.NewDecryptionKeyHandler(coreCfg, pool),
			epochkghandler.NewDecryptionKeyShareHandler(coreCfg, pool),
		)
		ksh := &epochkghandler.KeyShareHandler{
			InstanceID:           d2InstanceID,
			KeyperAddress:        coreCfg.GetAddress(),
			MaxNumKeysPerMessage: coreCfg.GetMaxNumKeysPerMessage(),
			DBPool:               pool,
			Messaging:            middleware,
			Trigger:              node.kshTrigger,
		}
		_, stop := service.RunBackground(ctx, ksh)
		t.Cleanup(stop)
		nodes = append(nodes, node)
	}
	return nodes
}

// d2AddTx makes all keypers see the same TransactionSubmitted event (what the sequencer syncer does).
func d2AddTx(nodes []*d2Node, index int64) {
	for _, n := range nodes {
		n.store.mu.Lock()
		n.store.t["transaction_submitted_event"] = append(n.store.t["transaction_submitted_event"], d2Row{
			"index": index, "block_number": int64(90 + index), "block_hash": []byte{byte(index)}, "tx_index": int64(0),
			"log_index": int64(0), "eon": d2KeyperConfigIndex,
			"identity_prefix": bytes.Repeat([]byte{byte(index + 1)}, 32),
			"sender":          shdb.EncodeAddress(common.BytesToAddress(bytes.Repeat([]byte{0xaa, byte(index)}, 10))),
			"gas_limit":       int64(21_000),
		})
		n.store.mu.Unlock()
	}
}

type d2InFlight struct {
	from *d2Node
	msg  p2pmsg.Message
}

// d2DeliverAll delivers every message to every other keyper until the network is quiet and insists
// that every message an honest keyper emits is accepted by itself and by all its peers.
func d2DeliverAll(ctx context.Context, t *testing.T, nodes []*d2Node, queue []d2InFlight) {
	t.Helper()
	for len(queue) > 0 {
		cur := queue[0]
		queue = queue[1:]
		for _, n := range nodes {
			if n == cur.from {
				continue
			}
			for _, e := range n.receive(ctx, cur.msg) {
				if e.localErr != nil {
					t.Fatalf("keyper %s could not publish %s: %v", n.name, e.msg.LogInfo(), e.localErr)
				}
				queue = append(queue, d2InFlight{from: n, msg: e.msg})
			}
		}
	}
}

func d2Describe(msg p2pmsg.Message) string {
	switch m := msg.(type) {
	case *p2pmsg.DecryptionKeys:
		ids := []string{}
		for _, k := range m.Keys {
			ids = append(ids, hex.EncodeToString(k.IdentityPreimage)[:8]+".."+hex.EncodeToString(k.IdentityPreimage)[96:])
		}
		return fmt.Sprintf("DecryptionKeys{slot=%d txPointer=%d signers=%v identities=%v}",
			m.GetGnosis().GetSlot(), m.GetGnosis().GetTxPointer(), m.GetGnosis().GetSignerIndices(), ids)
	case *p2pmsg.DecryptionKeyShares:
		ids := []string{}
		for _, s := range m.Shares {
			ids = append(ids, hex.EncodeToString(s.IdentityPreimage)[:8]+".."+hex.EncodeToString(s.IdentityPreimage)[96:])
		}
		return fmt.Sprintf("DecryptionKeyShares{keyper=%d slot=%d txPointer=%d identities=%v}",
			m.KeyperIndex, m.GetGnosis().GetSlot(), m.GetGnosis().GetTxPointer(), ids)
	}
	return msg.LogInfo()
}

func TestDemo2GnosisKeysMessageAcceptedByPeers(t *testing.T) {
	ctx, cancel := context.WithCancel(context.Background())
	defer cancel()

	eonKeys, err := testkeygen.NewEonKeys(rand.Reader, d2N, d2T)
	if err != nil {
		t.Fatal(err)
	}
	nodes := d2NewNodes(ctx, t, eonKeys)
	b, a, c := nodes[0], nodes[1], nodes[2]

	// ---- slot 10: two encrypted transactions are pending; everybody is triggered, everything is
	// delivered.  d2DeliverAll fails the test if any message is rejected by anybody.
	d2AddTx(nodes, 0)
	d2AddTx(nodes, 1)
	queue := []d2InFlight{}
	for _, n := range nodes {
		queue = append(queue, d2InFlight{from: n, msg: n.trigger(ctx, 10, 100)})
	}
	slot10Shares := queue[0].msg.(*p2pmsg.DecryptionKeyShares)
	d2DeliverAll(ctx, t, nodes, queue)
	for _, n := range nodes {
		for _, s := range slot10Shares.Shares {
			expected, err := eonKeys.EpochSecretKey(s.IdentityPreimage)
			if err != nil {
				t.Fatal(err)
			}
			if !bytes.Equal(n.storedKey(ctx, s.IdentityPreimage), expected.Marshal()) {
				t.Fatalf("slot 10: keyper %s did not store the correct key", n.name)
			}
		}
		if p := n.txPointer(ctx); p != 2 {
			t.Fatalf("slot 10: keyper %s has tx pointer %d, expected 2", n.name, p)
		}
	}
	t.Logf("slot 10 finished: all messages accepted by all keypers, keys stored, tx pointer = 2 everywhere")

	// ---- slot 11: one more transaction.  B and C are triggered; their shares reach A before A has
	// processed its own slot-11 trigger.
	d2AddTx(nodes, 2)
	shareB := b.trigger(ctx, 11, 101)
	shareC := c.trigger(ctx, 11, 101)
	t.Logf("B sends %s", d2Describe(shareB))
	emitted := a.receive(ctx, shareB)
	emitted = append(emitted, a.receive(ctx, shareC)...)

	// A now holds t shares for the slot-11 identities and must have stored the correct keys ...
	for _, s := range shareB.(*p2pmsg.DecryptionKeyShares).Shares {
		expected, err := eonKeys.EpochSecretKey(s.IdentityPreimage)
		if err != nil {
			t.Fatal(err)
		}
		if !bytes.Equal(a.storedKey(ctx, s.IdentityPreimage), expected.Marshal()) {
			t.Errorf("C03 violated: A did not store the correct key for %x", s.IdentityPreimage)
		}
	}
	// ... and every keys message it emits must be accepted by every other keyper.
	for _, e := range emitted {
		if _, ok := e.msg.(*p2pmsg.DecryptionKeys); !ok {
			continue
		}
		t.Logf("A emits %s", d2Describe(e.msg))
		if e.localErr != nil {
			t.Errorf("C03 violated: A's own validators reject the keys message A emitted (local publish fails): %v", e.localErr)
		}
		for _, peer := range []*d2Node{b, c} {
			if err := peer.accepts(ctx, e.msg); err != nil {
				t.Errorf("C03 violated: keys message emitted by honest keyper A is rejected by honest peer: %v", err)
			}
		}
	}

	// consequence: the bogus message also moved A's tx pointer backwards, so A's own (late)
	// slot-11 trigger now signs other identities / another tx pointer than B and C did.
	t.Logf("A's tx pointer after emitting the keys message: %d (B: %d, C: %d before they have the keys)",
		a.txPointer(ctx), b.txPointer(ctx), c.txPointer(ctx))
	shareA := a.trigger(ctx, 11, 101)
	t.Logf("A's own slot-11 share message: %s", d2Describe(shareA))
}
