package epochkghandler

// demo1: property C03 ("every honest keyper obtains the correct key under any gossip delivery
// order").
//
// n=3, t=2.  Keypers A (index 1) and B (index 0) are triggered for the same identity, C (index 2)
// is not triggered.  B's share message is delivered to A *before* A processes its own trigger.
// A's share message to B and to C is lost (one lost share message per receiver, n-t = 1).
//
// After everything has been delivered, A holds t = 2 verified shares (B's and its own), but it
// never aggregates them: the only place where shares are aggregated is
// DecryptionKeyShareHandler.HandleMessage, the trigger path (ConstructDecryptionKeyShares) only
// stores the own share, and own gossip messages are not handled by the sender.  So A neither
// stores the decryption key nor emits a DecryptionKeys message.  With the opposite order
// (trigger first, B's share second) the very same node does both.
//
// The test runs the real handlers / the real KeyShareHandler against an in-process stand-in for
// Postgres (a tiny pgwire server that answers exactly the sqlc queries used on this path).

import (
	"bytes"
	"context"
	"crypto/rand"
	"encoding/binary"
	"encoding/hex"
	"fmt"
	"net"
	"regexp"
	"sort"
	"strconv"
	"strings"
	"sync"
	"testing"

	"github.com/ethereum/go-ethereum/common"
	"github.com/jackc/pgproto3/v2"
	"github.com/jackc/pgx/v4/pgxpool"
	pubsub "github.com/libp2p/go-libp2p-pubsub"
	"github.com/pkg/errors"

	"github.com/shutter-network/shutter/shlib/puredkg"
	"github.com/shutter-network/shutter/shlib/shcrypto"

	"github.com/shutter-network/rolling-shutter/rolling-shutter/keyper/database"
	"github.com/shutter-network/rolling-shutter/rolling-shutter/medley/broker"
	"github.com/shutter-network/rolling-shutter/rolling-shutter/medley/identitypreimage"
	"github.com/shutter-network/rolling-shutter/rolling-shutter/medley/retry"
	"github.com/shutter-network/rolling-shutter/rolling-shutter/medley/service"
	"github.com/shutter-network/rolling-shutter/rolling-shutter/medley/testkeygen"
	"github.com/shutter-network/rolling-shutter/rolling-shutter/p2p"
	"github.com/shutter-network/rolling-shutter/rolling-shutter/p2pmsg"
	"github.com/shutter-network/rolling-shutter/rolling-shutter/shdb"
)

// ---------------------------------------------------------------------------------------------
// in-process Postgres stand-in
// ---------------------------------------------------------------------------------------------

const (
	d1Bool    = 16
	d1Bytea   = 17
	d1Int8    = 20
	d1Int4    = 23
	d1Text    = 25
	d1TextArr = 1009
)

type d1Row = map[string]any

type d1Store struct {
	mu sync.Mutex
	t  map[string][]d1Row
}

func (s *d1Store) sel(table string, pred func(d1Row) bool) []d1Row {
	out := []d1Row{}
	for _, r := range s.t[table] {
		if pred(r) {
			out = append(out, r)
		}
	}
	return out
}

// insert with ON CONFLICT DO NOTHING semantics on the given key columns.
func (s *d1Store) insert(table string, row d1Row, key ...string) string {
	for _, r := range s.t[table] {
		same := true
		for _, k := range key {
			if !d1Eq(r[k], row[k]) {
				same = false
				break
			}
		}
		if same {
			return "INSERT 0 0"
		}
	}
	s.t[table] = append(s.t[table], row)
	return "INSERT 0 1"
}

func d1Eq(a, b any) bool {
	ab, ok1 := a.([]byte)
	bb, ok2 := b.([]byte)
	if ok1 && ok2 {
		return bytes.Equal(ab, bb)
	}
	return a == b
}

type d1Col struct {
	name string
	oid  uint32
}

type d1Query struct {
	params []uint32
	cols   []d1Col
	run    func(s *d1Store, a []any) ([][]any, string)
}

func d1Project(rows []d1Row, cols []d1Col) [][]any {
	out := [][]any{}
	for _, r := range rows {
		vals := []any{}
		for _, c := range cols {
			vals = append(vals, r[c.name])
		}
		out = append(out, vals)
	}
	return out
}

var (
	d1ShareCols = []d1Col{{"eon", d1Int8}, {"epoch_id", d1Bytea}, {"keyper_index", d1Int8}, {"decryption_key_share", d1Bytea}}
	d1KeyCols   = []d1Col{{"eon", d1Int8}, {"epoch_id", d1Bytea}, {"decryption_key", d1Bytea}}
	d1DKGCols   = []d1Col{{"eon", d1Int8}, {"success", d1Bool}, {"error", d1Text}, {"pure_result", d1Bytea}}
	d1EonCols   = []d1Col{{"eon", d1Int8}, {"height", d1Int8}, {"activation_block_number", d1Int8}, {"keyper_config_index", d1Int8}}
	d1BCCols    = []d1Col{
		{"keyper_config_index", d1Int4},
		{"height", d1Int8},
		{"keypers", d1TextArr},
		{"threshold", d1Int4},
		{"started", d1Bool},
		{"activation_block_number", d1Int8},
	}
)

// the sqlc queries (identified by their "-- name:" header) used by the code under test.
var d1Queries = map[string]*d1Query{
	"GetBatchConfig": {
		params: []uint32{d1Int4}, cols: d1BCCols,
		run: func(s *d1Store, a []any) ([][]any, string) {
			rows := s.sel("tendermint_batch_config", func(r d1Row) bool { return r["keyper_config_index"] == a[0] })
			return d1Project(rows, d1BCCols), "SELECT"
		},
	},
	"GetEonForBlockNumber": {
		params: []uint32{d1Int8}, cols: d1EonCols,
		run: func(s *d1Store, a []any) ([][]any, string) {
			rows := s.sel("eons", func(r d1Row) bool { return r["activation_block_number"].(int64) <= a[0].(int64) })
			sort.SliceStable(rows, func(i, j int) bool {
				ai, aj := rows[i]["activation_block_number"].(int64), rows[j]["activation_block_number"].(int64)
				if ai != aj {
					return ai > aj
				}
				return rows[i]["height"].(int64) > rows[j]["height"].(int64)
			})
			if len(rows) > 1 {
				rows = rows[:1]
			}
			return d1Project(rows, d1EonCols), "SELECT"
		},
	},
	"GetDKGResult": {
		params: []uint32{d1Int8}, cols: d1DKGCols,
		run: func(s *d1Store, a []any) ([][]any, string) {
			rows := s.sel("dkg_result", func(r d1Row) bool { return r["eon"] == a[0] })
			return d1Project(rows, d1DKGCols), "SELECT"
		},
	},
	"GetDKGResultForKeyperConfigIndex": {
		params: []uint32{d1Int8}, cols: d1DKGCols,
		run: func(s *d1Store, a []any) ([][]any, string) {
			maxEon := int64(-1)
			for _, r := range s.sel("eons", func(r d1Row) bool { return r["keyper_config_index"] == a[0] }) {
				if r["eon"].(int64) > maxEon {
					maxEon = r["eon"].(int64)
				}
			}
			rows := s.sel("dkg_result", func(r d1Row) bool { return r["eon"] == maxEon })
			return d1Project(rows, d1DKGCols), "SELECT"
		},
	},
	"ExistsDecryptionKeyShare": {
		params: []uint32{d1Int8, d1Bytea, d1Int8}, cols: []d1Col{{"exists", d1Bool}},
		run: func(s *d1Store, a []any) ([][]any, string) {
			rows := s.sel("decryption_key_share", func(r d1Row) bool {
				return r["eon"] == a[0] && d1Eq(r["epoch_id"], a[1]) && r["keyper_index"] == a[2]
			})
			return [][]any{{len(rows) > 0}}, "SELECT"
		},
	},
	"ExistsDecryptionKey": {
		params: []uint32{d1Int8, d1Bytea}, cols: []d1Col{{"exists", d1Bool}},
		run: func(s *d1Store, a []any) ([][]any, string) {
			rows := s.sel("decryption_key", func(r d1Row) bool { return r["eon"] == a[0] && d1Eq(r["epoch_id"], a[1]) })
			return [][]any{{len(rows) > 0}}, "SELECT"
		},
	},
	"InsertDecryptionKeyShare": {
		params: []uint32{d1Int8, d1Bytea, d1Int8, d1Bytea},
		run: func(s *d1Store, a []any) ([][]any, string) {
			return nil, s.insert("decryption_key_share",
				d1Row{"eon": a[0], "epoch_id": a[1], "keyper_index": a[2], "decryption_key_share": a[3]},
				"eon", "epoch_id", "keyper_index")
		},
	},
	"SelectDecryptionKeyShares": {
		params: []uint32{d1Int8, d1Bytea}, cols: d1ShareCols,
		run: func(s *d1Store, a []any) ([][]any, string) {
			rows := s.sel("decryption_key_share", func(r d1Row) bool { return r["eon"] == a[0] && d1Eq(r["epoch_id"], a[1]) })
			return d1Project(rows, d1ShareCols), "SELECT"
		},
	},
	"InsertDecryptionKey": {
		params: []uint32{d1Int8, d1Bytea, d1Bytea},
		run: func(s *d1Store, a []any) ([][]any, string) {
			return nil, s.insert("decryption_key",
				d1Row{"eon": a[0], "epoch_id": a[1], "decryption_key": a[2]}, "eon", "epoch_id")
		},
	},
	"GetDecryptionKey": {
		params: []uint32{d1Int8, d1Bytea}, cols: d1KeyCols,
		run: func(s *d1Store, a []any) ([][]any, string) {
			rows := s.sel("decryption_key", func(r d1Row) bool { return r["eon"] == a[0] && d1Eq(r["epoch_id"], a[1]) })
			return d1Project(rows, d1KeyCols), "SELECT"
		},
	},
}

func d1Decode(oid uint32, format int16, b []byte) any {
	if b == nil {
		return nil
	}
	switch oid {
	case d1Int8, d1Int4:
		if format == 1 {
			if len(b) == 8 {
				return int64(binary.BigEndian.Uint64(b))
			}
			return int64(int32(binary.BigEndian.Uint32(b)))
		}
		v, _ := strconv.ParseInt(string(b), 10, 64)
		return v
	case d1Bool:
		if format == 1 {
			return b[0] != 0
		}
		return string(b) == "t" || string(b) == "true"
	case d1Bytea:
		if format == 1 {
			return append([]byte{}, b...)
		}
		d, _ := hex.DecodeString(strings.TrimPrefix(string(b), `\x`))
		return d
	default:
		return string(b)
	}
}

func d1Encode(oid uint32, format int16, v any) []byte {
	if v == nil {
		return nil
	}
	switch oid {
	case d1Int8:
		if format == 1 {
			return binary.BigEndian.AppendUint64(nil, uint64(v.(int64)))
		}
		return []byte(strconv.FormatInt(v.(int64), 10))
	case d1Int4:
		if format == 1 {
			return binary.BigEndian.AppendUint32(nil, uint32(v.(int64)))
		}
		return []byte(strconv.FormatInt(v.(int64), 10))
	case d1Bool:
		if format == 1 {
			if v.(bool) {
				return []byte{1}
			}
			return []byte{0}
		}
		if v.(bool) {
			return []byte("t")
		}
		return []byte("f")
	case d1Bytea:
		if format == 1 {
			return append([]byte{}, v.([]byte)...)
		}
		return []byte(`\x` + hex.EncodeToString(v.([]byte)))
	case d1TextArr:
		elems := v.([]string)
		if format == 1 {
			out := []byte{}
			if len(elems) == 0 {
				out = binary.BigEndian.AppendUint32(out, 0)
				out = binary.BigEndian.AppendUint32(out, 0)
				return binary.BigEndian.AppendUint32(out, d1Text)
			}
			out = binary.BigEndian.AppendUint32(out, 1)
			out = binary.BigEndian.AppendUint32(out, 0)
			out = binary.BigEndian.AppendUint32(out, d1Text)
			out = binary.BigEndian.AppendUint32(out, uint32(len(elems)))
			out = binary.BigEndian.AppendUint32(out, 1)
			for _, e := range elems {
				out = binary.BigEndian.AppendUint32(out, uint32(len(e)))
				out = append(out, e...)
			}
			return out
		}
		quoted := []string{}
		for _, e := range elems {
			quoted = append(quoted, strconv.Quote(e))
		}
		return []byte("{" + strings.Join(quoted, ",") + "}")
	default:
		return []byte(v.(string))
	}
}

func d1Format(codes []int16, i int) int16 {
	switch len(codes) {
	case 0:
		return 0
	case 1:
		return codes[0]
	default:
		return codes[i]
	}
}

var d1NameRE = regexp.MustCompile(`^-- name: (\w+) :`)

type d1Portal struct {
	q       *d1Query
	args    []any
	formats []int16
}

func d1RowDescription(q *d1Query, formats []int16) pgproto3.BackendMessage {
	if len(q.cols) == 0 {
		return &pgproto3.NoData{}
	}
	fields := []pgproto3.FieldDescription{}
	for i, c := range q.cols {
		f := int16(0)
		if formats != nil {
			f = d1Format(formats, i)
		}
		fields = append(fields, pgproto3.FieldDescription{
			Name: []byte(c.name), DataTypeOID: c.oid, DataTypeSize: -1, TypeModifier: -1, Format: f,
		})
	}
	return &pgproto3.RowDescription{Fields: fields}
}

func d1Serve(conn net.Conn, store *d1Store) {
	defer conn.Close()
	be := pgproto3.NewBackend(pgproto3.NewChunkReader(conn), conn)
	sm, err := be.ReceiveStartupMessage()
	if err != nil {
		return
	}
	if _, ok := sm.(*pgproto3.SSLRequest); ok {
		if _, err := conn.Write([]byte("N")); err != nil {
			return
		}
		if _, err = be.ReceiveStartupMessage(); err != nil {
			return
		}
	}
	send := func(msgs ...pgproto3.BackendMessage) {
		for _, m := range msgs {
			_ = be.Send(m)
		}
	}
	send(
		&pgproto3.AuthenticationOk{},
		&pgproto3.ParameterStatus{Name: "server_version", Value: "14.0"},
		&pgproto3.ParameterStatus{Name: "client_encoding", Value: "UTF8"},
		&pgproto3.ParameterStatus{Name: "standard_conforming_strings", Value: "on"},
		&pgproto3.ParameterStatus{Name: "integer_datetimes", Value: "on"},
		&pgproto3.BackendKeyData{ProcessID: 1, SecretKey: 1},
		&pgproto3.ReadyForQuery{TxStatus: 'I'},
	)
	stmts := map[string]*d1Query{}
	portals := map[string]*d1Portal{}
	failed := false
	fail := func(text string) {
		failed = true
		send(&pgproto3.ErrorResponse{Severity: "ERROR", Code: "0A000", Message: "fake postgres: " + text})
	}
	for {
		msg, err := be.Receive()
		if err != nil {
			return
		}
		if _, isSync := msg.(*pgproto3.Sync); failed && !isSync {
			continue
		}
		switch m := msg.(type) {
		case *pgproto3.Parse:
			match := d1NameRE.FindStringSubmatch(m.Query)
			if match == nil || d1Queries[match[1]] == nil {
				fail("unsupported query: " + m.Query)
				continue
			}
			stmts[m.Name] = d1Queries[match[1]]
			send(&pgproto3.ParseComplete{})
		case *pgproto3.Describe:
			if m.ObjectType == 'S' {
				q := stmts[m.Name]
				send(&pgproto3.ParameterDescription{ParameterOIDs: q.params}, d1RowDescription(q, nil))
			} else {
				p := portals[m.Name]
				send(d1RowDescription(p.q, p.formats))
			}
		case *pgproto3.Bind:
			q := stmts[m.PreparedStatement]
			if q == nil || len(m.Parameters) != len(q.params) {
				fail("bad bind")
				continue
			}
			args := []any{}
			for i, p := range m.Parameters {
				args = append(args, d1Decode(q.params[i], d1Format(m.ParameterFormatCodes, i), p))
			}
			portals[m.DestinationPortal] = &d1Portal{q: q, args: args, formats: append([]int16{}, m.ResultFormatCodes...)}
			send(&pgproto3.BindComplete{})
		case *pgproto3.Execute:
			p := portals[m.Portal]
			store.mu.Lock()
			rows, tag := p.q.run(store, p.args)
			store.mu.Unlock()
			for _, r := range rows {
				vals := [][]byte{}
				for i, c := range p.q.cols {
					vals = append(vals, d1Encode(c.oid, d1Format(p.formats, i), r[i]))
				}
				send(&pgproto3.DataRow{Values: vals})
			}
			if tag == "SELECT" {
				tag = fmt.Sprintf("SELECT %d", len(rows))
			}
			send(&pgproto3.CommandComplete{CommandTag: []byte(tag)})
		case *pgproto3.Sync:
			failed = false
			send(&pgproto3.ReadyForQuery{TxStatus: 'I'})
		case *pgproto3.Query:
			send(&pgproto3.EmptyQueryResponse{}, &pgproto3.ReadyForQuery{TxStatus: 'I'})
		case *pgproto3.Close:
			send(&pgproto3.CloseComplete{})
		case *pgproto3.Terminate:
			return
		}
	}
}

func d1NewPool(ctx context.Context, t *testing.T, store *d1Store) *pgxpool.Pool {
	t.Helper()
	ln, err := net.Listen("tcp", "127.0.0.1:0")
	if err != nil {
		t.Fatalf("listen: %v", err)
	}
	go func() {
		for {
			conn, err := ln.Accept()
			if err != nil {
				return
			}
			go d1Serve(conn, store)
		}
	}()
	cfg, err := pgxpool.ParseConfig(fmt.Sprintf("postgres://test@%s/test?sslmode=disable", ln.Addr().String()))
	if err != nil {
		t.Fatalf("parse config: %v", err)
	}
	cfg.MaxConns = 2
	pool, err := pgxpool.ConnectConfig(ctx, cfg)
	if err != nil {
		t.Fatalf("connect to in-process postgres stand-in: %v", err)
	}
	t.Cleanup(func() {
		pool.Close()
		ln.Close()
	})
	return pool
}

// ---------------------------------------------------------------------------------------------
// three keyper nodes, each with the real handlers and its own database
// ---------------------------------------------------------------------------------------------

const (
	d1InstanceID        = uint64(55)
	d1Eon               = int64(22)
	d1KeyperConfigIndex = int64(1)
	d1N                 = 3
	d1T                 = 2
)

var d1Addresses = []common.Address{
	common.HexToAddress("0x1000000000000000000000000000000000000000"),
	common.HexToAddress("0x2000000000000000000000000000000000000000"),
	common.HexToAddress("0x3000000000000000000000000000000000000000"),
}

type d1Config struct{ address common.Address }

func (c d1Config) GetAddress() common.Address    { return c.address }
func (d1Config) GetInstanceID() uint64           { return d1InstanceID }
func (d1Config) GetMaxNumKeysPerMessage() uint64 { return 500 }

type d1Node struct {
	t        *testing.T
	name     string
	index    int
	pool     *pgxpool.Pool
	handlers []p2p.MessageHandler
	ksh      *KeyShareHandler
	// messages this node successfully published to the gossip network
	published []p2pmsg.Message
}

// d1Node is the p2p.Messaging of the node's KeyShareHandler.
func (n *d1Node) Start(context.Context, service.Runner) error       { return nil }
func (n *d1Node) AddValidator(p2p.ValidatorFunc, ...p2pmsg.Message) {}
func (n *d1Node) AddMessageHandler(...p2p.MessageHandler)           {}

// validate runs the node's validators for the message (libp2p runs them for remote messages and,
// on Publish, also for the node's own messages).
func (n *d1Node) validate(ctx context.Context, msg p2pmsg.Message) error {
	for _, h := range n.handlers {
		for _, proto := range h.MessagePrototypes() {
			if proto.Topic() != msg.Topic() {
				continue
			}
			res, err := h.ValidateMessage(ctx, msg)
			if res != pubsub.ValidationAccept {
				return errors.Errorf("%s rejects %s: %v", n.name, msg.LogInfo(), err)
			}
		}
	}
	return nil
}

func (n *d1Node) SendMessage(ctx context.Context, msg p2pmsg.Message, _ ...retry.Option) error {
	if err := n.validate(ctx, msg); err != nil {
		return err
	}
	n.published = append(n.published, msg)
	return nil
}

// receive delivers a gossip message sent by another node: wire round trip, validators, handlers,
// and publication of the handlers' output (this is what P2PMessaging.handle does).
func (n *d1Node) receive(ctx context.Context, msg p2pmsg.Message) {
	n.t.Helper()
	data, err := p2pmsg.Marshal(msg, nil)
	if err != nil {
		n.t.Fatalf("marshal: %v", err)
	}
	decoded, _, err := p2pmsg.Unmarshal(data)
	if err != nil {
		n.t.Fatalf("unmarshal: %v", err)
	}
	if err := n.validate(ctx, decoded); err != nil {
		n.t.Fatalf("message of an honest keyper was rejected: %v", err)
	}
	for _, h := range n.handlers {
		for _, proto := range h.MessagePrototypes() {
			if proto.Topic() != decoded.Topic() {
				continue
			}
			out, err := h.HandleMessage(ctx, decoded)
			if err != nil {
				n.t.Fatalf("%s: handler failed: %v", n.name, err)
			}
			for _, o := range out {
				if err := n.SendMessage(ctx, o); err != nil {
					n.t.Fatalf("%s: sending handler output failed: %v", n.name, err)
				}
			}
		}
	}
}

// trigger makes the node process a decryption trigger with the real KeyShareHandler and returns
// the share message it published.
func (n *d1Node) trigger(ctx context.Context, ids []identitypreimage.IdentityPreimage) p2pmsg.Message {
	n.t.Helper()
	before := len(n.published)
	ev := broker.NewEvent(&DecryptionTrigger{BlockNumber: 100, IdentityPreimages: ids})
	n.ksh.handleEvent(ctx, ev)
	res := <-ev.Result()
	if res.Error != nil {
		n.t.Fatalf("%s: trigger failed: %v", n.name, res.Error)
	}
	for _, m := range n.published[before:] {
		if _, ok := m.(*p2pmsg.DecryptionKeyShares); ok {
			return m
		}
	}
	n.t.Fatalf("%s: expected a share message to be published", n.name)
	return nil
}

func (n *d1Node) numShares(ctx context.Context, id identitypreimage.IdentityPreimage) int {
	shares, err := database.New(n.pool).SelectDecryptionKeyShares(ctx, database.SelectDecryptionKeySharesParams{
		Eon: d1KeyperConfigIndex, EpochID: id.Bytes(),
	})
	if err != nil {
		n.t.Fatalf("select shares: %v", err)
	}
	return len(shares)
}

func (n *d1Node) storedKey(ctx context.Context, id identitypreimage.IdentityPreimage) []byte {
	db := database.New(n.pool)
	exists, err := db.ExistsDecryptionKey(ctx, database.ExistsDecryptionKeyParams{Eon: d1KeyperConfigIndex, EpochID: id.Bytes()})
	if err != nil {
		n.t.Fatalf("exists key: %v", err)
	}
	if !exists {
		return nil
	}
	key, err := db.GetDecryptionKey(ctx, database.GetDecryptionKeyParams{Eon: d1KeyperConfigIndex, EpochID: id.Bytes()})
	if err != nil {
		n.t.Fatalf("get key: %v", err)
	}
	return key.DecryptionKey
}

func (n *d1Node) publishedKeys() []*p2pmsg.DecryptionKeys {
	out := []*p2pmsg.DecryptionKeys{}
	for _, m := range n.published {
		if k, ok := m.(*p2pmsg.DecryptionKeys); ok {
			out = append(out, k)
		}
	}
	return out
}

func d1NewNodes(ctx context.Context, t *testing.T, eonKeys *testkeygen.EonKeys) []*d1Node {
	t.Helper()
	keypers := []string{}
	for _, a := range d1Addresses {
		keypers = append(keypers, shdb.EncodeAddress(a))
	}
	publicKeyShares := []*shcrypto.EonPublicKeyShare{}
	for i := 0; i < d1N; i++ {
		publicKeyShares = append(publicKeyShares, eonKeys.EonPublicKeyShare(i))
	}
	nodes := []*d1Node{}
	for i := 0; i < d1N; i++ {
		// the state every keyper has after a successful DKG for the eon
		pure, err := shdb.EncodePureDKGResult(&puredkg.Result{
			Eon:             uint64(d1Eon),
			NumKeypers:      d1N,
			Threshold:       d1T,
			Keyper:          uint64(i),
			SecretKeyShare:  eonKeys.EonSecretKeyShare(i),
			PublicKey:       eonKeys.EonPublicKey(),
			PublicKeyShares: publicKeyShares,
		})
		if err != nil {
			t.Fatalf("encode dkg result: %v", err)
		}
		store := &d1Store{t: map[string][]d1Row{
			"tendermint_batch_config": {{
				"keyper_config_index": d1KeyperConfigIndex, "height": int64(0), "keypers": keypers,
				"threshold": int64(d1T), "started": true, "activation_block_number": int64(0),
			}},
			"eons": {{
				"eon": d1Eon, "height": int64(0), "activation_block_number": int64(0),
				"keyper_config_index": d1KeyperConfigIndex,
			}},
			"dkg_result": {{"eon": d1Eon, "success": true, "error": nil, "pure_result": pure}},
		}}
		pool := d1NewPool(ctx, t, store)
		cfg := d1Config{address: d1Addresses[i]}
		node := &d1Node{t: t, name: []string{"B", "A", "C"}[i], index: i, pool: pool}
		// same registration as keyper.KeyperCore
		node.handlers = []p2p.MessageHandler{
			NewDecryptionKeyHandler(cfg, pool),
			NewDecryptionKeyShareHandler(cfg, pool),
		}
		node.ksh = &KeyShareHandler{
			InstanceID:           d1InstanceID,
			KeyperAddress:        cfg.GetAddress(),
			MaxNumKeysPerMessage: cfg.GetMaxNumKeysPerMessage(),
			DBPool:               pool,
			Messaging:            node,
		}
		nodes = append(nodes, node)
	}
	return nodes
}

func d1CheckHasCorrectKey(
	ctx context.Context, t *testing.T, node *d1Node, eonKeys *testkeygen.EonKeys, id identitypreimage.IdentityPreimage,
) {
	t.Helper()
	expected, err := eonKeys.EpochSecretKey(id)
	if err != nil {
		t.Fatalf("compute expected key: %v", err)
	}
	numShares := node.numShares(ctx, id)
	if numShares < d1T {
		t.Fatalf("test setup: keyper %s should hold at least t=%d shares, has %d", node.name, d1T, numShares)
	}
	key := node.storedKey(ctx, id)
	if key == nil {
		t.Errorf("C03 violated: keyper %s received every message sent to it and holds %d >= t=%d verified shares "+
			"for identity %s, but has NOT stored the decryption key", node.name, numShares, d1T, id.Hex())
	} else if !bytes.Equal(key, expected.Marshal()) {
		t.Errorf("C03 violated: keyper %s stored a wrong key", node.name)
	}
	if len(node.publishedKeys()) == 0 {
		t.Errorf("C03 violated: keyper %s holds %d >= t=%d shares but has not emitted a DecryptionKeys message",
			node.name, numShares, d1T)
	}
}

func TestDemo1KeyObtainedUnderAnyDeliveryOrder(t *testing.T) {
	ctx := context.Background()
	id := identitypreimage.Uint64ToIdentityPreimage(7)
	ids := []identitypreimage.IdentityPreimage{id}

	// control: A is triggered first, B's share arrives afterwards.
	t.Run("trigger before delivery", func(t *testing.T) {
		eonKeys, err := testkeygen.NewEonKeys(rand.Reader, d1N, d1T)
		if err != nil {
			t.Fatal(err)
		}
		nodes := d1NewNodes(ctx, t, eonKeys)
		b, a := nodes[0], nodes[1]
		shareB := b.trigger(ctx, ids)
		_ = a.trigger(ctx, ids)
		a.receive(ctx, shareB)
		d1CheckHasCorrectKey(ctx, t, a, eonKeys, id)
	})

	// the same two events at A in the other order.
	t.Run("delivery before trigger", func(t *testing.T) {
		eonKeys, err := testkeygen.NewEonKeys(rand.Reader, d1N, d1T)
		if err != nil {
			t.Fatal(err)
		}
		nodes := d1NewNodes(ctx, t, eonKeys)
		b, a, c := nodes[0], nodes[1], nodes[2]

		// B and A are triggered for the same identity, C is not triggered (>= t keypers triggered).
		shareB := b.trigger(ctx, ids)
		a.receive(ctx, shareB) // B's share reaches A before A has processed its own trigger
		c.receive(ctx, shareB)
		shareA := a.trigger(ctx, ids)
		// A's share message is lost on its way to B and to C: one lost share message per receiver,
		// which is within the allowed n-t = 1.  A itself has lost nothing.  libp2p does not hand
		// A's own message back to A (gossipRoom.readLoop).
		_ = shareA

		// nobody has anything left to send:
		for _, n := range nodes {
			if len(n.publishedKeys()) != 0 {
				t.Logf("keyper %s published a keys message", n.name)
			}
		}
		d1CheckHasCorrectKey(ctx, t, a, eonKeys, id)
	})
}
