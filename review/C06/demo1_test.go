package gnosis_test

// C06 demo 1: a Gnosis / Shutter-service keys message stays valid after one of its keyper
// signatures has been CHANGED (ECDSA malleability: (r, s, v) -> (r, N-s, v^1)).
//
// The property says: "... exactly one signature per signer, each a valid signature by that
// keyper over the message's instance, eon, slot, transaction pointer and identity list; changing
// any of those fields or any signature invalidates it."
//
// Drop into rolling-shutter/keyperimpl/gnosis and run
//   go test ./keyperimpl/gnosis/ -run TestC06Demo1 -count=1 -v

import (
	"bytes"
	"crypto/ecdsa"
	"math/big"
	"testing"

	"github.com/ethereum/go-ethereum/common"
	"github.com/ethereum/go-ethereum/crypto"
	pubsub "github.com/libp2p/go-libp2p-pubsub"

	obskeyperdatabase "github.com/shutter-network/rolling-shutter/rolling-shutter/chainobserver/db/keyper"
	"github.com/shutter-network/rolling-shutter/rolling-shutter/keyperimpl/gnosis"
	"github.com/shutter-network/rolling-shutter/rolling-shutter/keyperimpl/gnosis/gnosisssztypes"
	"github.com/shutter-network/rolling-shutter/rolling-shutter/keyperimpl/shutterservice"
	"github.com/shutter-network/rolling-shutter/rolling-shutter/keyperimpl/shutterservice/serviceztypes"
	"github.com/shutter-network/rolling-shutter/rolling-shutter/medley/identitypreimage"
	"github.com/shutter-network/rolling-shutter/rolling-shutter/p2pmsg"
	"github.com/shutter-network/rolling-shutter/rolling-shutter/shdb"
)

const (
	demo1Instance  = uint64(7)
	demo1Eon       = uint64(1)
	demo1Slot      = uint64(10)
	demo1TxPointer = uint64(3)
)

// changeSignature returns a byte string different from sig: same r, s replaced by N-s and the
// recovery id flipped. No private key is needed to do this.
func changeSignature(sig []byte) []byte {
	n := crypto.S256().Params().N
	out := append([]byte{}, sig...)
	s := new(big.Int).SetBytes(out[32:64])
	s.Sub(n, s)
	s.FillBytes(out[32:64])
	out[64] ^= 1
	return out
}

func demo1KeyperSet(t *testing.T, n int, threshold int32) ([]*ecdsa.PrivateKey, *obskeyperdatabase.KeyperSet) {
	t.Helper()
	privs := []*ecdsa.PrivateKey{}
	addrs := []common.Address{}
	for i := 0; i < n; i++ {
		k, err := crypto.GenerateKey()
		if err != nil {
			t.Fatal(err)
		}
		privs = append(privs, k)
		addrs = append(addrs, crypto.PubkeyToAddress(k.PublicKey))
	}
	return privs, &obskeyperdatabase.KeyperSet{
		KeyperConfigIndex: int64(demo1Eon),
		Keypers:           shdb.EncodeAddresses(addrs),
		Threshold:         threshold,
	}
}

func demo1Identities(size int) ([]identitypreimage.IdentityPreimage, []*p2pmsg.Key) {
	ids := []identitypreimage.IdentityPreimage{}
	keys := []*p2pmsg.Key{}
	for i := 0; i < 2; i++ {
		id := make([]byte, size)
		id[size-1] = byte(i)
		ids = append(ids, id)
		keys = append(keys, &p2pmsg.Key{IdentityPreimage: id})
	}
	return ids, keys
}

func TestC06Demo1GnosisChangedSignatureStillAccepted(t *testing.T) {
	privs, keyperSet := demo1KeyperSet(t, 3, 2)
	ids, keyList := demo1Identities(52)
	signers := []uint64{0, 2}

	sigData, err := gnosisssztypes.NewSlotDecryptionSignatureData(demo1Instance, demo1Eon, demo1Slot, demo1TxPointer, ids)
	if err != nil {
		t.Fatal(err)
	}
	sigs := [][]byte{}
	for _, i := range signers {
		sig, err := sigData.ComputeSignature(privs[i])
		if err != nil {
			t.Fatal(err)
		}
		sigs = append(sigs, sig)
	}
	keys := &p2pmsg.DecryptionKeys{InstanceId: demo1Instance, Eon: demo1Eon, Keys: keyList}
	mkExtra := func(signatures [][]byte) *p2pmsg.GnosisDecryptionKeysExtra {
		return &p2pmsg.GnosisDecryptionKeysExtra{
			Slot: demo1Slot, TxPointer: demo1TxPointer, SignerIndices: signers, Signatures: signatures,
		}
	}
	keys.Extra = &p2pmsg.DecryptionKeys_Gnosis{Gnosis: mkExtra(sigs)}

	// sanity: the genuine message is accepted (this is the function used by both the Gnosis
	// keyper's DecryptionKeysHandler.ValidateMessage and the access node's validateGnosisFields)
	res, err := gnosis.ValidateDecryptionKeysSignatures(keys, mkExtra(sigs), keyperSet)
	if res != pubsub.ValidationAccept || err != nil {
		t.Fatalf("genuine message not accepted: %v %v", res, err)
	}
	// sanity: an arbitrary change of a signature (one flipped bit in r) is rejected
	flipped := append([]byte{}, sigs[0]...)
	flipped[5] ^= 0x10
	res, _ = gnosis.ValidateDecryptionKeysSignatures(keys, mkExtra([][]byte{flipped, sigs[1]}), keyperSet)
	if res == pubsub.ValidationAccept {
		t.Fatalf("bit-flipped signature accepted")
	}

	// property: changing ANY signature invalidates the message
	for pos := range sigs {
		changed := [][]byte{sigs[0], sigs[1]}
		changed[pos] = changeSignature(sigs[pos])
		if bytes.Equal(changed[pos], sigs[pos]) {
			t.Fatal("signature was not changed")
		}
		res, err := gnosis.ValidateDecryptionKeysSignatures(keys, mkExtra(changed), keyperSet)
		if res == pubsub.ValidationAccept {
			t.Errorf("C06 violated (gnosis): keys message with signature #%d changed from %x to %x is still accepted (err=%v)",
				pos, sigs[pos], changed[pos], err)
		}
	}
}

func TestC06Demo1ServiceChangedSignatureStillAccepted(t *testing.T) {
	privs, keyperSet := demo1KeyperSet(t, 3, 2)
	ids, keyList := demo1Identities(32)
	signers := []uint64{0, 2}

	sigData, err := serviceztypes.NewDecryptionSignatureData(demo1Instance, demo1Eon, ids)
	if err != nil {
		t.Fatal(err)
	}
	sigs := [][]byte{}
	for _, i := range signers {
		sig, err := sigData.ComputeSignature(privs[i])
		if err != nil {
			t.Fatal(err)
		}
		sigs = append(sigs, sig)
	}
	keys := &p2pmsg.DecryptionKeys{InstanceId: demo1Instance, Eon: demo1Eon, Keys: keyList}
	mkExtra := func(signatures [][]byte) *p2pmsg.ShutterServiceDecryptionKeysExtra {
		return &p2pmsg.ShutterServiceDecryptionKeysExtra{SignerIndices: signers, Signature: signatures}
	}
	res, err := shutterservice.ValidateDecryptionKeysSignatures(keys, mkExtra(sigs), keyperSet)
	if res != pubsub.ValidationAccept || err != nil {
		t.Fatalf("genuine message not accepted: %v %v", res, err)
	}
	for pos := range sigs {
		changed := [][]byte{sigs[0], sigs[1]}
		changed[pos] = changeSignature(sigs[pos])
		res, err := shutterservice.ValidateDecryptionKeysSignatures(keys, mkExtra(changed), keyperSet)
		if res == pubsub.ValidationAccept {
			t.Errorf("C06 violated (service): keys message with signature #%d changed from %x to %x is still accepted (err=%v)",
				pos, sigs[pos], changed[pos], err)
		}
	}
}
