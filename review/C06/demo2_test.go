package gnosiskeyperwatcher

// C06 demo 2: the Gnosis keyper watcher (gnosiskeyperwatcher/keys.go, one of the files the
// property is anchored in) is a gossip participant on the decryptionKeys topic. Its validator
// accepts EVERY DecryptionKeys message - no signer count, no signer indices, no signature check -
// so a keys message without a single keyper signature is accepted (ValidationAccept => delivered
// to HandleMessage, reported as "new keys" and relayed to the watcher's gossip peers). Because
// nothing is validated, a message that is not even a Gnosis message reaches HandleMessage, whose
// unchecked type assertion panics (there is no recover in p2p.runHandleMessages => process exit).
//
// Drop into rolling-shutter/gnosiskeyperwatcher and run
//   go test ./gnosiskeyperwatcher/ -run TestC06Demo2 -count=1 -v

import (
	"context"
	"math/big"
	"testing"
	"time"

	"github.com/ethereum/go-ethereum/core/types"
	pubsub "github.com/libp2p/go-libp2p-pubsub"

	"github.com/shutter-network/rolling-shutter/rolling-shutter/p2p"
	"github.com/shutter-network/rolling-shutter/rolling-shutter/p2pmsg"
)

func demo2Watcher() *KeysWatcher {
	w := NewKeysWatcher(nil, make(chan *BlockReceivedEvent))
	w.insertBlock(&BlockReceivedEvent{Header: &types.Header{Number: big.NewInt(10)}, Time: time.Now()})
	return w
}

// A Gnosis keys message naming no signer and carrying no signature, and one naming signers 7,7,3
// (repeated, unordered, out of range for any keyper set n<=4) with garbage signatures.
func TestC06Demo2WatcherAcceptsUnsignedKeys(t *testing.T) {
	var handler p2p.MessageHandler = demo2Watcher()
	ctx := context.Background()
	id := make([]byte, 52)

	for name, extra := range map[string]*p2pmsg.GnosisDecryptionKeysExtra{
		"no signers, no signatures": {Slot: 10, TxPointer: 0},
		"repeated/unordered/out-of-range signers, garbage signatures": {
			Slot: 10, TxPointer: 0,
			SignerIndices: []uint64{7, 7, 3},
			Signatures:    [][]byte{{1}, {2}, {3}},
		},
	} {
		msg := &p2pmsg.DecryptionKeys{
			InstanceId: 1,
			Eon:        1,
			Keys:       []*p2pmsg.Key{{IdentityPreimage: id, Key: []byte("not a key")}},
			Extra:      &p2pmsg.DecryptionKeys_Gnosis{Gnosis: extra},
		}
		res, err := handler.ValidateMessage(ctx, msg)
		if res == pubsub.ValidationAccept {
			t.Errorf("C06 violated: watcher accepted Gnosis keys message with %s (res=%v err=%v)", name, res, err)
		}
	}
}

// Since the validator accepts everything, a Shutter-service flavoured (or extra-less) keys
// message published on the shared decryptionKeys topic is handed to HandleMessage.
func TestC06Demo2WatcherCrashesOnAcceptedNonGnosisKeys(t *testing.T) {
	var handler p2p.MessageHandler = demo2Watcher()
	ctx := context.Background()

	msg := &p2pmsg.DecryptionKeys{
		InstanceId: 1,
		Eon:        1,
		Keys:       []*p2pmsg.Key{{IdentityPreimage: make([]byte, 32)}},
		Extra:      &p2pmsg.DecryptionKeys_Service{Service: &p2pmsg.ShutterServiceDecryptionKeysExtra{}},
	}
	res, _ := handler.ValidateMessage(ctx, msg)
	if res != pubsub.ValidationAccept {
		return // rejected by the validator: fine, it never reaches the handler
	}
	defer func() {
		if r := recover(); r != nil {
			t.Errorf("watcher accepted a non-Gnosis keys message and then panicked handling it: %v", r)
		}
	}()
	_, _ = handler.HandleMessage(ctx, msg)
}
