package shutterservice

import (
	"fmt"
	"math/big"
	"testing"

	"github.com/ethereum/go-ethereum/common"
	"github.com/ethereum/go-ethereum/core/types"
)

// C17: "Matching a valid definition against any log (any topics, ...) returns a yes/no answer
// that equals the documented predicate semantics on well-formed data".
//
// docs/event.md: a topic reference (Offset < 4) "returns the log's topic at index Offset as a
// 32-byte value" and e.g. UintLte "returns true if value <= argument". A log that has fewer
// topics than the referenced index simply has no such value, so no predicate on that topic can
// be satisfied by it (the package's own test "topic reference that doesn't exist in log" pins
// exactly this answer for BytesEq: no match).
//
// This test takes valid definitions (they pass Validate and survive the encode/decode round
// trip) whose only predicate is an unsigned comparison on topic k, and perfectly well-formed
// logs of the watched contract that carry fewer than k+1 topics. The property demands "no match".
func TestDemo1MissingTopicMustNotSatisfyUintPredicates(t *testing.T) {
	contract := common.HexToAddress("0x00000000000000000000000000000000000000c7")
	maxU256 := new(big.Int).Sub(new(big.Int).Lsh(big.NewInt(1), 256), big.NewInt(1))

	preds := []struct {
		name string
		vp   ValuePredicate
	}{
		{"UintLt(1)", ValuePredicate{Op: UintLt, IntArgs: []*big.Int{big.NewInt(1)}}},
		{"UintLte(100)", ValuePredicate{Op: UintLte, IntArgs: []*big.Int{big.NewInt(100)}}},
		{"UintLte(2^256-1)", ValuePredicate{Op: UintLte, IntArgs: []*big.Int{maxU256}}},
		{"UintEq(0)", ValuePredicate{Op: UintEq, IntArgs: []*big.Int{big.NewInt(0)}}},
		{"UintGte(0)", ValuePredicate{Op: UintGte, IntArgs: []*big.Int{big.NewInt(0)}}},
	}

	someTopic := common.HexToHash("0xddf252ad1be2c89b69c2b068fc378daa952ba7f163c4a11628f55a4df523b3ef")

	for topicIdx := uint64(0); topicIdx < 4; topicIdx++ {
		for _, p := range preds {
			def := EventTriggerDefinition{
				Contract: contract,
				LogPredicates: []LogPredicate{{
					LogValueRef:    LogValueRef{Offset: topicIdx},
					ValuePredicate: p.vp,
				}},
			}
			if err := def.Validate(); err != nil {
				t.Fatalf("definition is expected to be valid: %v", err)
			}
			// go through the wire format, as the keyper does
			var decoded EventTriggerDefinition
			if err := decoded.UnmarshalBytes(def.MarshalBytes()); err != nil {
				t.Fatalf("valid definition does not round trip: %v", err)
			}

			// sibling predicate on the same (missing) topic: BytesEq with the 32-byte word that is
			// numerically zero. On every existing 32-byte topic UintEq(0) and BytesEq(0^32) agree.
			bytesEqZero := EventTriggerDefinition{
				Contract: contract,
				LogPredicates: []LogPredicate{{
					LogValueRef:    LogValueRef{Offset: topicIdx},
					ValuePredicate: ValuePredicate{Op: BytesEq, ByteArgs: [][]byte{make([]byte, Word)}},
				}},
			}
			if err := bytesEqZero.Validate(); err != nil {
				t.Fatalf("definition is expected to be valid: %v", err)
			}

			// well-formed logs with 0..topicIdx topics: topic[topicIdx] does not exist.
			for numTopics := uint64(0); numTopics <= topicIdx; numTopics++ {
				log := &types.Log{
					Address: contract,
					Data:    common.LeftPadBytes([]byte{42}, Word),
				}
				for i := uint64(0); i < numTopics; i++ {
					log.Topics = append(log.Topics, someTopic)
				}
				name := fmt.Sprintf("topic[%d] %s vs log with %d topics", topicIdx, p.name, numTopics)

				ref, err := bytesEqZero.Match(log)
				if err != nil {
					t.Fatalf("%s: BytesEq match failed: %v", name, err)
				}
				if ref {
					t.Fatalf("%s: BytesEq(0^32) unexpectedly matches a missing topic", name)
				}

				got, err := decoded.Match(log)
				if err != nil {
					t.Errorf("%s: Match returned error: %v", name, err)
					continue
				}
				if got {
					t.Errorf("%s: trigger FIRES although the log has no topic[%d] "+
						"(missing topic is silently read as the number 0; BytesEq(0^32) on the same log says no match)",
						name, topicIdx)
				}
			}
		}
	}
}
